#!/venv/bin/python
"""Replay of known finding C11-F24 on a real directory tree with the real find code: a symbolic
link to a directory below the directory a walk starts from is listed but not descended into, so
the result for a list of patterns is not the union of the single-pattern results.
Exit 1 (VIOLATION line) while the behaviour is present, 0 otherwise."""
import os
import shutil
import sys
import tempfile

sys.path.insert(0, os.environ.get('VPX_REPO') or '/repo')
from bfg9000.builtins import find as bfind          # noqa: E402
from bfg9000.path import Path, Root                 # noqa: E402


def main():
    tmp = tempfile.mkdtemp()
    try:
        os.makedirs(os.path.join(tmp, 'third_party', 'zlib', 'contrib'))
        os.makedirs(os.path.join(tmp, 'src'))
        for f in ('top.c', 'third_party/zlib/contrib/y.c'):
            open(os.path.join(tmp, f), 'w').close()
        os.symlink(os.path.join('..', 'third_party', 'zlib'), os.path.join(tmp, 'src', 'zlib'))

        class Env:
            base_dirs = {Root.srcdir: Path(tmp, Root.absolute)}

        def find(pats):
            return sorted(p.suffix for p in bfind.find(
                Env, [Path(i, Root.srcdir) for i in pats], '*', None, None))
        single = sorted(set(find(['*.c']) + find(['src/zlib/contrib/*.c'])))
        both = find(['*.c', 'src/zlib/contrib/*.c'])
        star = find(['**/*.c'])
        print('single patterns, united :', single)
        print('both patterns at once   :', both)
        print("'**/*.c'                 :", star)
        if both != single:
            print('VIOLATION C11-F24: %r is missing when the patterns are given together'
                  % sorted(set(single) - set(both)))
            return 1
        return 0
    finally:
        shutil.rmtree(tmp, ignore_errors=True)


if __name__ == '__main__':
    sys.exit(main())

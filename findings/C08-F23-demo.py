#!/venv/bin/python
"""Replay of known finding C08-F23 against the real driver and the real make: a directory created
below a find_files() base starts a lazy regeneration that is skipped (results unchanged) without
refreshing .bfg_find_deps; a file added to that directory afterwards never starts a regeneration.
Exit 1 (VIOLATION lines) while the defect is present, 0 otherwise."""
import os
import shutil
import subprocess
import sys
import tempfile
import time

HERE = os.environ.get('VPX_REPO') or '/repo'
PY = '/venv/bin/python'


def main():
    tmp = tempfile.mkdtemp()
    try:
        return run(tmp)
    finally:
        shutil.rmtree(tmp, ignore_errors=True)


def run(tmp):
    src = os.path.join(tmp, 'src')
    bld = os.path.join(tmp, 'build')
    keep = os.path.join(tmp, 'build.keep')
    log = os.path.join(tmp, 'calls.log')
    wrapper = os.path.join(tmp, 'bfg9000')
    os.makedirs(os.path.join(src, 'src'))

    with open(wrapper, 'w') as f:
        f.write('#!/bin/sh\n'
                'echo "$@" >> {log}\n'
                'PYTHONPATH={here} exec {py} -c "import sys; '
                'from bfg9000.driver import main; sys.exit(main())" "$@"\n'
                .format(log=log, here=HERE, py=PY))
    os.chmod(wrapper, 0o755)
    env = dict(os.environ, BFG9000=wrapper, PYTHONPATH=HERE,
               PATH='/venv/bin:' + os.environ['PATH'])
    for k in ('CFLAGS', 'CPPFLAGS', 'LDFLAGS', 'CC'):
        env.pop(k, None)

    def sh(cmd, cwd):
        p = subprocess.run(cmd, cwd=cwd, env=env, stdout=subprocess.PIPE,
                           stderr=subprocess.STDOUT, text=True)
        if p.returncode:
            print('command failed: {}\n{}'.format(cmd, p.stdout))
            sys.exit(2)
        return p.stdout

    def write(path, data):
        with open(path, 'w') as f:
            f.write(data)

    def read(path):
        with open(path) as f:
            return f.read()

    def calls():
        return read(log).splitlines() if os.path.exists(log) else []

    def configure():
        sh([wrapper, 'configure', bld, '--backend=make',
            '--no-resolve-packages'], src)

    def fresh_makefile():
        # Fresh configure with the same configuration at the same location;
        # the incrementally maintained build dir is put back afterwards.
        os.rename(bld, keep)
        try:
            configure()
            return read(os.path.join(bld, 'Makefile'))
        finally:
            shutil.rmtree(bld, ignore_errors=True)
            os.rename(keep, bld)

    problems = []

    def check(step):
        n0 = len(calls())
        sh(['make', 'Makefile'], bld)
        n1 = len(calls())
        regen = read(os.path.join(bld, 'Makefile'))
        sh(['make', 'Makefile'], bld)
        n2 = len(calls())
        if n2 != n1:
            problems.append('{}: second `make Makefile` invoked bfg9000 '
                            'again: {}'.format(step, calls()[n1:n2]))
        fresh = fresh_makefile()
        if regen != fresh:
            a, b = regen.splitlines(), fresh.splitlines()
            diff = ['      {} {}'.format('regen:' if i in a else 'fresh:', i)
                    for i in sorted(set(a) ^ set(b))]
            problems.append('{}: Makefile differs from a fresh configure '
                            '(bfg9000 calls: {})\n{}'.format(
                                step, calls()[n0:n1], '\n'.join(diff)))
        return n1 - n0

    write(os.path.join(src, 'src', 'main.c'),
          'int main(void) { return 0; }\n')
    write(os.path.join(src, 'build.bfg'),
          "project('demo')\n"
          "executable('prog', find_files('src/**/*.c'))\n")
    configure()
    print(read(os.path.join(bld, '.bfg_find_deps')))
    time.sleep(0.05)
    os.makedirs(os.path.join(src, 'src', 'new'))
    n = check('step 1 (empty directory src/new created)')
    print('step 1 invoked bfg9000', n, 'times'); print(read(os.path.join(bld, '.bfg_find_deps')))
    time.sleep(0.05)
    write(os.path.join(src, 'src', 'new', 'extra.c'), 'int extra;\n')
    n = check('step 2 (src/new/extra.c added)')
    print('step 2 invoked bfg9000', n, 'times')
    if problems:
        for i in problems:
            print('VIOLATION at ' + i)
        return 1
    print('OK: regeneration equals a fresh configure and converges')
    return 0


if __name__ == '__main__':
    sys.exit(main())

"""CrossHair fixes used by every harness (part of the trusted base; see DESIGN.md §7).

1. re.Pattern.sub/subn on symbolic strings: stock CrossHair re-matches on the sliced remainder,
   so ^, look-behind and \\b are evaluated relative to the slice.  Re-implemented over finditer.
2. scoped (?s:...) groups (fnmatch.translate) -> spliced, with . turned into the full range.
3. posixpath.normpath is C in 3.12 (realises symbolic strings) -> CPython pure-Python fallback.
"""
import re
import crosshair.core_and_libs  # noqa: F401  (registers the stock patches first)
from crosshair import core as _core
from crosshair.libimpl import relib

def _subn(self, repl, string, count=0):
    if not isinstance(self, re.Pattern):
        raise TypeError
    if isinstance(repl, (str, bytes)):
        def replfn(m):
            return m.expand(repl)
    elif callable(repl):
        replfn = repl
    else:
        raise TypeError
    if not isinstance(count, int):
        raise TypeError
    out = string[:0]
    last = 0
    n = 0
    for m in self.finditer(string):
        out = out + string[last:m.start()] + replfn(m)
        last = m.end()
        n += 1
        if count and n >= count:
            break
    out = out + string[last:]
    return (out, n)

def _sub(self, repl, string, count=0):
    return _subn(self, repl, string, count)[0]

_core._PATCH_REGISTRATIONS[re.Pattern.sub] = _sub
_core._PATCH_REGISTRATIONS[re.Pattern.subn] = _subn

# --- scoped (?s:...) flag groups: rewrite '.' to an explicit full-range class -----------
from crosshair.libimpl import relib as _relib
try:
    from re import _constants as _sc, _parser as _sp
except ImportError:
    import sre_constants as _sc, sre_parse as _sp
_orig_parse = _relib.parse

def _rewrite(items):
    out = []
    for op, arg in items:
        if op is _sc.SUBPATTERN:
            g, add, dele, sub = arg
            sub2 = _rewrite(list(sub))
            if g is None and add == re.DOTALL and dele == 0:
                sub2 = _dotall(sub2)
                out.extend(sub2)          # non-capturing: splice inline
                continue
            out.append((op, (g, add, dele, sub2)))
        elif op in (_sc.MAX_REPEAT, _sc.MIN_REPEAT):
            lo, hi, sub = arg
            out.append((op, (lo, hi, _rewrite(list(sub)))))
        elif op is _sc.BRANCH:
            out.append((op, (arg[0], [_rewrite(list(b)) for b in arg[1]])))
        else:
            out.append((op, arg))
    return out

def _dotall(items):
    out = []
    for op, arg in items:
        if op is _sc.ANY:
            out.append((_sc.IN, [(_sc.RANGE, (0, 0x10FFFF))]))
        elif op in (_sc.MAX_REPEAT, _sc.MIN_REPEAT):
            lo, hi, sub = arg
            out.append((op, (lo, hi, _dotall(list(sub)))))
        elif op is _sc.BRANCH:
            out.append((op, (arg[0], [_dotall(list(b)) for b in arg[1]])))
        elif op is _sc.SUBPATTERN:
            g, add, dele, sub = arg
            out.append((op, (g, add, dele, _dotall(list(sub)))))
        else:
            out.append((op, arg))
    return out

def _parse(pattern, flags=0):
    return _rewrite(list(_orig_parse(pattern, flags)))
_relib.parse = _parse

# --- 3. pure-python normpath -------------------------------------------------
import posixpath
def normpath(path):
    """Normalize path, eliminating double slashes, etc. (CPython pure-python fallback)"""
    sep = '/'; empty = ''; dot = '.'; dotdot = '..'
    if path == empty:
        return dot
    initial_slashes = path.startswith(sep)
    if (initial_slashes and
        path.startswith(sep*2) and not path.startswith(sep*3)):
        initial_slashes = 2
    comps = path.split(sep)
    new_comps = []
    for comp in comps:
        if comp in (empty, dot):
            continue
        if (comp != dotdot or (not initial_slashes and not new_comps) or
             (new_comps and new_comps[-1] == dotdot)):
            new_comps.append(comp)
        elif new_comps:
            new_comps.pop()
    comps = new_comps
    path = sep.join(comps)
    if initial_slashes:
        path = sep*initial_slashes + path
    return path or dot
C_NORMPATH = posixpath.normpath
posixpath.normpath = normpath


# --- 4. SequenceConcatenation.__eq__: a concrete (possibly empty) list/tuple half compared with a
# symbolic slice of the other operand goes through list.__eq__, which answers NotImplemented/False
# for non-list sequences.  Found via a non-reproducing counterexample: (t + '').split('/') !=
# t.split('/').  Compare element-wise instead.
from crosshair import simplestructs as _ss
from crosshair.tracers import NoTracing as _NoTracing


def _seq_eq(a, b):
    if isinstance(a, (list, tuple)) and type(a) is not type(b):
        if len(a) != len(b):
            return False
        for x, y in zip(a, b):
            if x != y:
                return False
        return True
    return a == b


def _concat_eq(self, other):
    with _NoTracing():
        if not hasattr(other, '__len__'):
            return False
        first, second = self._first, self._second
    if self.__len__() != other.__len__():
        return False
    firstlen = first.__len__()
    return _seq_eq(first, other[:firstlen]) and _seq_eq(second, other[firstlen:])


_ss.SequenceConcatenation.__eq__ = _concat_eq


# --- 5. re.Pattern.search on symbolic strings never tries the position == len(string), so a
# pattern whose only match is empty at the very end (e.g. r'(\\*)("|$)' on 'a') reports None.
# Found by the engine self-test.  search == first element of finditer.
def _search(self, string, pos=0, endpos=None):
    if not isinstance(self, re.Pattern):
        raise TypeError
    if endpos is None:
        it = self.finditer(string, pos)
    else:
        it = self.finditer(string, pos, endpos)
    for m in it:
        return m
    return None


_core._PATCH_REGISTRATIONS[re.Pattern.search] = _search


# --- 6. no opportunistic short-circuiting.  CrossHair may *skip the body* of any callee that has
# a contract (including its own `hash` wrapper) and substitute a fresh symbolic return value, with
# some probability per call.  For checks that claim to execute the real code this is unwanted, and
# for `hash` it produced "proxy intolerance" aborts (a symbolic int returned from __hash__).  Only
# functions explicitly registered as skip-body (nondeterministic stubs such as time.time) keep it.
_orig_consider = _core.consider_shortcircuit


def _consider_shortcircuit(fn, sig, bound, subconditions, allow_interpretation):
    if allow_interpretation:
        return None
    return _orig_consider(fn, sig, bound, subconditions, allow_interpretation)


_core.consider_shortcircuit = _consider_shortcircuit


# --- 7. dict order.  CrossHair's dict stand-in (ShellMutableMap) iterates "untouched keys of the
# original mapping, then every mutated key": assigning to an *existing* key moved it to the end,
# which a real dict never does.  A sensitivity twin that depended on mapping order was wrongly
# confirmed (found with C15's reversed install-directory mapping).  Keys keep their place unless
# they were deleted at some point; comparisons stay list based (no hashing of symbolic keys).
from crosshair import simplestructs as _sstructs

_SMM = _sstructs.ShellMutableMap
_DELETED = _sstructs._DELETED
_orig_smm_delitem = _SMM.__delitem__


def _smm_iter(self):
    mutations = self._mutations
    dead = self.__dict__.get('_vpx_dead', [])
    placed = []
    mkeys = list(mutations.keys())
    for k in self._inner:
        if k in dead:
            continue
        if k in mkeys and mutations[k] is _DELETED:
            continue
        placed.append(k)
        yield k
    for k, v in mutations.items():
        if v is _DELETED or k in placed:
            continue
        yield k


def _smm_reversed(self):
    return iter(list(reversed(list(_smm_iter(self)))))


def _smm_delitem(self, key):
    _orig_smm_delitem(self, key)
    self.__dict__.setdefault('_vpx_dead', []).append(key)


_SMM.__iter__ = _smm_iter
_SMM._reversed = _smm_reversed
_SMM.__delitem__ = _smm_delitem

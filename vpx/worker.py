"""One obligation = one process.

  python -m vpx.worker check  <module> <function> <per_condition_timeout_s>
  python -m vpx.worker replay <module> <function> '<args literal tuple>'

``check`` executes the harness function symbolically with CrossHair (z3 back end) and prints one
JSON line: verdict (confirmed / refuted / unknown / pre_unsat / error), the message, the parsed
counterexample, path statistics.  ``replay`` runs the same harness body concretely and untraced.
Parameters (bounds, mutant, twin) arrive in VPX_PARAMS, see vpx.params.
"""
import ast
import importlib
import json
import re
import sys
import time
import traceback


def _load(modname, fnname):
    import vpx.chplugin  # noqa: F401  (engine fixes first)
    from vpx import params
    mod = importlib.import_module(modname)
    if params.MUTANT:
        from vpx import mutants
        mutants.apply(params.MUTANT)
    return mod, getattr(mod, fnname)


def parse_cex(message, fnname):
    """'false when calling f('x', 3)' -> ('x', 3); also '... (which returns False)'."""
    m = re.search(r'when calling ' + re.escape(fnname) + r'\((.*?)\)'
                  r'(?: \(which (?:returns|raises) .*\))?\s*$', message, re.S)
    if not m:
        return None
    src = m.group(1)
    try:
        # CrossHair prints shared sub-objects with walrus aliases: f([v1:=(5, 0), v1], 2)
        a, k = eval('(lambda *a, **k: (a, k))(' + src + ')', {'__builtins__': {}}, {})
        return {'args': _jsonable(list(a)), 'kwargs': _jsonable(dict(k))}
    except Exception:
        return None


def _jsonable(x):
    if isinstance(x, (list, tuple)):
        return [_jsonable(i) for i in x]
    if isinstance(x, dict):
        return {str(k): _jsonable(v) for k, v in x.items()}
    if isinstance(x, (str, int, float, bool)) or x is None:
        return x
    return repr(x)


def check(modname, fnname, timeout):
    t0 = time.time()
    c0 = time.process_time()
    mod, fn = _load(modname, fnname)
    from crosshair import core
    from crosshair.core_and_libs import analyze_function, run_checkables
    from crosshair.options import AnalysisOptionSet, AnalysisKind
    from crosshair.statespace import MessageType, VerificationStatus
    from vpx import params

    roots = []
    _Root = core.RootNode

    class RecordingRoot(_Root):
        def __init__(self):
            super().__init__()
            roots.append(self)
    core.RootNode = RecordingRoot
    captured = []
    _orig_act = core.analyze_calltree

    def act(options, conditions):
        r = _orig_act(options, conditions)
        captured.append(r)
        return r
    core.analyze_calltree = act

    import collections
    stats = collections.Counter()
    opts = AnalysisOptionSet(
        per_condition_timeout=float(timeout),
        per_path_timeout=float(params.param('path_timeout', max(40.0, 2 * float(timeout) ** 0.5))),
        report_all=True, stats=stats,
        # PEP316 docstrings only: otherwise functions of the code under test that merely *start
        # with an assert* (e.g. FindCache.add) are treated as contracts and wrapped/short-circuited
        analysis_kind=[AnalysisKind.PEP316],
    )
    out = {'module': modname, 'fn': fnname, 'params': params.P}
    try:
        checkables = analyze_function(fn, opts)
        if not checkables:
            out.update(verdict='error', message='no checkable conditions')
        else:
            msgs = run_checkables(checkables)
            worst = None
            order = [MessageType.CONFIRMED, MessageType.CANNOT_CONFIRM, MessageType.PRE_UNSAT,
                     MessageType.POST_ERR, MessageType.EXEC_ERR, MessageType.POST_FAIL,
                     MessageType.SYNTAX_ERR, MessageType.IMPORT_ERR]
            for m in msgs:
                if worst is None or order.index(m.state) > order.index(worst.state):
                    worst = m
            if worst is None:
                out.update(verdict='unknown', message='no message')
            else:
                v = {MessageType.CONFIRMED: 'confirmed', MessageType.CANNOT_CONFIRM: 'unknown',
                     MessageType.PRE_UNSAT: 'pre_unsat', MessageType.POST_FAIL: 'refuted',
                     MessageType.EXEC_ERR: 'refuted', MessageType.POST_ERR: 'error',
                     MessageType.SYNTAX_ERR: 'error', MessageType.IMPORT_ERR: 'error'}[worst.state]
                out.update(verdict=v, message=worst.message, state=worst.state.name)
                if v == 'refuted':
                    out['cex'] = parse_cex(worst.message, fnname)
                    if worst.state == MessageType.EXEC_ERR:
                        out['exec_err'] = True
    except BaseException as e:  # engine crash
        out.update(verdict='error', message='%s: %s' % (type(e).__name__, e),
                   traceback=traceback.format_exc()[-2000:])
    confirmed = sum(c.num_confirmed_paths for c in captured)
    tree = collections.Counter()
    for r in roots:
        try:
            # full (unfiltered) statistics of the explored decision tree
            r._stats = None
            for k, v in r.child.stats().items():
                if isinstance(k, VerificationStatus):
                    tree[k.name] += v
                else:
                    tree['decisions'] += v
        except Exception:
            pass
    out.update(paths=int(stats.get('num_paths', 0)), confirmed_paths=confirmed,
               tree=dict(tree), cpu_s=round(time.process_time() - c0, 2),
               wall_s=round(time.time() - t0, 2))
    print('VPXRESULT ' + json.dumps(out))
    return 0


def replay(modname, fnname, argsjson):
    mod, fn = _load(modname, fnname)
    spec = json.loads(argsjson)
    args = _dejson(spec.get('args', []))
    kwargs = _dejson(spec.get('kwargs', {}))
    try:
        r = fn(*args, **kwargs)
        out = {'ok': bool(r), 'result': repr(r)[:500]}
    except Exception as e:
        out = {'ok': False, 'result': 'raised %s: %s' % (type(e).__name__, e),
               'traceback': traceback.format_exc()[-1500:]}
    detail = getattr(mod, 'LAST_DETAIL', None)
    if detail:
        out['detail'] = detail
    print('VPXRESULT ' + json.dumps(out))
    return 0


def _dejson(x):
    # JSON has no tuples; harness signatures use List[Tuple[...]] only in positions where a list
    # behaves the same (iteration / unpacking), so lists are passed through.
    return x


if __name__ == '__main__':
    mode = sys.argv[1]
    if mode == 'check':
        sys.exit(check(sys.argv[2], sys.argv[3], float(sys.argv[4])))
    elif mode == 'replay':
        sys.exit(replay(sys.argv[2], sys.argv[3], sys.argv[4]))

"""Run-time parameters of a harness process.

The runner passes the bound (exact string length N, partition, mutant name, twin kind) to the
worker process in the environment variable VPX_PARAMS (JSON).  Harness modules read them at import
time, so that PEP-316 preconditions can refer to module globals such as ``N``: the bound is a
literal of the obligation, regenerated on every run.
"""
import json
import os

P = json.loads(os.environ.get('VPX_PARAMS', '{}'))
TWIN = P.get('twin')          # None | 'reach'
MUTANT = P.get('mutant')      # None | name registered in vpx.mutants


def param(name, default=None):
    return P.get(name, default)


def R(ok):
    """Final verdict of a harness.  The reachability twin turns *reaching the final assertion*
    into a failure, so an unsatisfiable precondition or a harness that bails out early on every
    path is detected (the twin must come back refuted)."""
    if TWIN == 'reach':
        return False
    return ok


def no_ctl(s):
    """The common exclusion of the properties: no NUL, CR, LF."""
    return chr(0) not in s and chr(10) not in s and chr(13) not in s

"""Adversarial set iteration order ("hash seed as a schedule").

`rewrite(owner, name)` re-compiles one function of the live code with every set display, set
comprehension and call of set()/frozenset() replaced by AdvSet, a set whose iteration order is
under the control of the harness: insertion order, or the reverse of it when AdvSet.REVERSE is
set.  A kernel whose *ordered* output changes between the two schedules leaks hash-seed order
into what it writes.  (Two schedules suffice to expose a dependence on the order; they do not
enumerate all permutations.)"""
import ast
import inspect
import textwrap


class AdvSet:
    REVERSE = False

    def __init__(self, iterable=()):
        self._items = []
        self._set = set()
        for i in iterable:
            self.add(i)

    def add(self, x):
        if x not in self._set:
            self._set.add(x)
            self._items.append(x)

    def update(self, *others):
        for o in others:
            for x in o:
                self.add(x)

    def discard(self, x):
        if x in self._set:
            self._set.discard(x)
            self._items.remove(x)

    remove = discard

    def __contains__(self, x):
        return x in self._set

    def __len__(self):
        return len(self._items)

    def __bool__(self):
        return bool(self._items)

    def __iter__(self):
        return iter(list(reversed(self._items)) if AdvSet.REVERSE else list(self._items))

    def __sub__(self, other):
        return AdvSet(x for x in self._items if x not in other)

    def __and__(self, other):
        return AdvSet(x for x in self._items if x in other)

    def __or__(self, other):
        r = AdvSet(self._items)
        r.update(other)
        return r

    def __rsub__(self, other):
        return AdvSet(x for x in other if x not in self)

    def __le__(self, other):
        return all(x in other for x in self._items)

    def __eq__(self, other):
        try:
            return len(self) == len(other) and all(x in other for x in self._items)
        except TypeError:
            return NotImplemented

    def __hash__(self):
        return 0


class _T(ast.NodeTransformer):
    def visit_Set(self, node):
        self.generic_visit(node)
        return ast.copy_location(ast.Call(ast.Name('__AdvSet', ast.Load()),
                                          [ast.List(node.elts, ast.Load())], []), node)

    def visit_SetComp(self, node):
        self.generic_visit(node)
        return ast.copy_location(ast.Call(ast.Name('__AdvSet', ast.Load()),
                                          [ast.ListComp(node.elt, node.generators)], []), node)

    def visit_Call(self, node):
        self.generic_visit(node)
        if isinstance(node.func, ast.Name) and node.func.id in ('set', 'frozenset'):
            return ast.copy_location(ast.Call(ast.Name('__AdvSet', ast.Load()), node.args, []),
                                     node)
        return node


def rewrite(owner, name, edit=None):
    """edit: optional function(source text) -> source text applied before the set rewrite (used by
    the sensitivity twins, which must survive the rewrite)"""
    fn = owner.__dict__[name]
    kind = None
    if isinstance(fn, (classmethod, staticmethod)):
        kind = type(fn)
        fn = fn.__func__
    if isinstance(fn, property):
        return
    src = textwrap.dedent(inspect.getsource(fn))
    if edit is not None:
        src = edit(src)
    tree = ast.parse(src)
    fdef = tree.body[0]
    fdef.decorator_list = []
    tree = ast.fix_missing_locations(_T().visit(tree))
    ast.increment_lineno(tree, fn.__code__.co_firstlineno - 1)   # keep inspect.getsource usable
    glb = fn.__globals__
    glb['__AdvSet'] = AdvSet
    ns = {}
    exec(compile(tree, inspect.getsourcefile(fn), 'exec'), glb, ns)
    new = ns[fn.__name__]
    new.__qualname__ = fn.__qualname__
    if kind:
        new = kind(new)
    setattr(owner, name, new)
    return new

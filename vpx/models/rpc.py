"""rpc -- reference model of how pkgconf 1.8 reads a Cflags / Libs field and prints it again.

Source of truth: libpkgconf fileio.c (pkgconf_fgetline: backslash / '#' handling), tuple.c
(${var} expansion), argvsplit.c (quotes, backslash), fragment.c (fragment_quote: which bytes are
printed with a backslash); validated at run time against the real /usr/bin/pkg-config 1.8.1.

    field(text)   text of the field value as written in the .pc file (one line)
                  -> string printed by `pkg-config --cflags`, or None if pkgconf rejects the line
The consumer then parses that string with sh rules (Makefile `$(shell pkg-config --cflags x)`, or
shlex in meson/cmake): rsh.argv('prog ' + out)."""

SAFE_EXTRA = '$()+,-./:=@^_~'


def fgetline(text):
    """comment and backslash pre-pass; returns the logical line, or None when the line is cut by
    a comment or continued by a trailing backslash"""
    out = ''
    quoted = False
    for c in text:
        if c == '\\' and not quoted:
            quoted = True
            continue
        if c == '#':
            if not quoted:
                return None          # rest of the line is a comment: the field is cut short
            quoted = False
            out += c
            continue
        if quoted:
            out += '\\'
            quoted = False
        out += c
    if quoted:
        return None                  # backslash-newline: continuation
    return out


def expand(s, vars=()):
    out = ''
    i = 0
    n = len(s)
    while i < n:
        if s[i] == '$' and i + 1 < n and s[i + 1] == '{':
            j = s.find('}', i + 2)
            if j < 0:
                return None
            name = s[i + 2:j]
            val = None
            for k, v in vars:
                if k == name:
                    val = v
            out += val if val is not None else ''
            i = j + 1
            continue
        out += s[i]
        i += 1
    return out


def argv_split(s):
    args = []
    cur = None
    quote = ''
    i = 0
    n = len(s)
    while i < n:
        c = s[i]
        if quote != '':
            if c == quote:
                quote = ''
            elif c == '\\' and quote == '"':
                i += 1
                if i >= n:
                    return None
                if s[i] != quote:
                    cur += '\\'
                cur += s[i]
            else:
                cur += c
            i += 1
            continue
        if c == ' ' or c == '\t' or c == '\n' or c == '\r' or c == '\x0b' or c == '\x0c':
            if cur is not None:
                args.append(cur)
                cur = None
            i += 1
            continue
        if cur is None:
            cur = ''
        if c == '\\':
            i += 1
            if i >= n:
                return None
            cur += s[i]
        elif c == "'" or c == '"':
            quote = c
        else:
            cur += c
        i += 1
    if quote != '':
        return None
    if cur is not None:
        args.append(cur)
    return args


def _needs_backslash(ch, first):
    o = ord(ch)
    if o < 32:
        return True
    if ('a' <= ch <= 'z') or ('A' <= ch <= 'Z') or ('0' <= ch <= '9'):
        return False
    if ch in SAFE_EXTRA:
        return False
    return True


def quote_fragment(data):
    out = ''
    first = True
    for ch in data:
        if _needs_backslash(ch, first):
            out += '\\'
        out += ch
        first = False
    return out


def field(text, vars=(), already_read=False):
    seen_dirs = []
    line = text if already_read else fgetline(text)
    if line is None:
        return None
    e = expand(line, vars)
    if e is None:
        return None
    args = argv_split(e)
    if args is None:
        return None
    out = ''
    for a in args:
        if a == '':
            continue                 # empty fragments are dropped
        if len(a) < 2 or a[0] != '-' or not (('a' <= a[1] <= 'z') or ('A' <= a[1] <= 'Z')):
            return None              # untyped fragments are merged into their neighbours: declined
        if a.startswith('-framework') or a.startswith('-isystem') or a.startswith('-idirafter'):
            return None              # merged with the following fragment: declined
        if a[1] in 'IL':
            # directory fragments: system directories are filtered, duplicates are merged
            # (-I keeps the first, -L too); the model declines both situations
            d = _collapse(a[2:])
            if d == '' or _is_system_dir(d):
                return None
            a = a[:2] + d
            for b in seen_dirs:
                if b == a:
                    return None
            seen_dirs.append(a)
        elif '//' in a:
            return None              # pkgconf also normalises path-like data of other fragments
        out += a[:2] + quote_fragment(a[2:]) + ' '
    return out


SYSTEM_DIRS = ['/usr/include', '/usr/lib', '/lib', '/usr/lib64', '/lib64', '/usr/lib/x86_64-linux-gnu',
               '/lib/x86_64-linux-gnu', '/usr/local/lib/x86_64-linux-gnu']


def _collapse(d):
    """pkgconf normalises directory fragments: runs of '/' become one"""
    out = ''
    prev = ''
    for c in d:
        if not (c == '/' and prev == '/'):
            out += c
        prev = c
    return out


def _is_system_dir(d):
    while len(d) > 1 and d[-1] == '/':
        d = d[:-1]
    for x in SYSTEM_DIRS:
        if d == x:
            return True
    return False


KEYCHARS = 'abcdefghijklmnopqrstuvwxyzABCDEFGHIJKLMNOPQRSTUVWXYZ0123456789_.'
WS = ' \t\n\r\x0b\x0c'


def pcfile(text, pcfiledir):
    """read a whole .pc file the way libpkgconf parser.c does: per line the comment / backslash
    pre-pass, key = leading [A-Za-z0-9_.]*, blanks, operator ':' (field) or '=' (variable, expanded
    at definition time), value without surrounding blanks.  Returns (vars, fields) with fields
    unexpanded, or None if a line is continued or malformed."""
    vars = [('pcfiledir', pcfiledir)]
    fields = []
    for raw in text.split('\n'):
        line = fgetline(raw)
        if line is None:
            return None
        i = 0
        n = len(line)
        while i < n and line[i] in KEYCHARS:
            i += 1
        key = line[:i]
        while i < n and line[i] in WS:
            i += 1
        if i >= n:
            if key != '' or line.strip(WS) != '':
                return None          # a line without an operator: warning, declined
            continue
        op = line[i]
        if key == '' or (op != ':' and op != '='):
            return None
        i += 1
        while i < n and line[i] in WS:
            i += 1
        j = n
        while j > i and line[j - 1] in WS:
            j -= 1
        value = line[i:j]
        if op == '=':
            if value[:1] == "'" or value[:1] == '"':
                return None          # values starting with a quote are de-quoted: declined
            e = expand(value, vars)
            if e is None:
                return None
            vars.append((key, e))
        else:
            fields.append((key, value))
    return vars, fields


def flags(text, pcfiledir, name):
    """what `pkg-config --cflags` (name='Cflags') or `--libs` (name='Libs') prints for the file"""
    r = pcfile(text, pcfiledir)
    if r is None:
        return None
    vars, fields = r
    out = ''
    for k, v in fields:
        if k == name:
            f = field(v, vars, already_read=True)
            if f is None:
                return None
            out += f
    return out

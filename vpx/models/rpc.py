"""rpc -- reference model of how pkgconf 1.8 reads a Cflags / Libs field and prints it again.

Source of truth: libpkgconf fileio.c (pkgconf_fgetline: backslash / '#' handling), tuple.c
(${var} expansion), argvsplit.c (quotes, backslash), fragment.c (fragment_quote: which bytes are
printed with a backslash); validated at run time against the real /usr/bin/pkg-config 1.8.1.

    field(text)   text of the field value as written in the .pc file (one line)
                  -> string printed by `pkg-config --cflags`, or None if pkgconf rejects the line
The consumer then parses that string with sh rules (Makefile `$(shell pkg-config --cflags x)`, or
shlex in meson/cmake): rsh.argv('prog ' + out)."""

SAFE_EXTRA = '$()+,-./:=@^_~'


def fgetline(text):
    """comment and backslash pre-pass; returns the logical line, or None when the line is cut by
    a comment or continued by a trailing backslash"""
    out = ''
    quoted = False
    for c in text:
        if c == '\\' and not quoted:
            quoted = True
            continue
        if c == '#':
            if not quoted:
                return None          # rest of the line is a comment: the field is cut short
            quoted = False
            out += c
            continue
        if quoted:
            out += '\\'
            quoted = False
        out += c
    if quoted:
        return None                  # backslash-newline: continuation
    return out


def expand(s, vars=()):
    out = ''
    i = 0
    n = len(s)
    while i < n:
        if s[i] == '$' and i + 1 < n and s[i + 1] == '{':
            j = s.find('}', i + 2)
            if j < 0:
                return None
            name = s[i + 2:j]
            val = None
            for k, v in vars:
                if k == name:
                    val = v
            out += val if val is not None else ''
            i = j + 1
            continue
        out += s[i]
        i += 1
    return out


def argv_split(s):
    args = []
    cur = None
    quote = ''
    i = 0
    n = len(s)
    while i < n:
        c = s[i]
        if quote != '':
            if c == quote:
                quote = ''
            elif c == '\\' and quote == '"':
                i += 1
                if i >= n:
                    return None
                if s[i] != quote:
                    cur += '\\'
                cur += s[i]
            else:
                cur += c
            i += 1
            continue
        if c == ' ' or c == '\t' or c == '\n' or c == '\r' or c == '\x0b' or c == '\x0c':
            if cur is not None:
                args.append(cur)
                cur = None
            i += 1
            continue
        if cur is None:
            cur = ''
        if c == '\\':
            i += 1
            if i >= n:
                return None
            cur += s[i]
        elif c == "'" or c == '"':
            quote = c
        else:
            cur += c
        i += 1
    if quote != '':
        return None
    if cur is not None:
        args.append(cur)
    return args


def _needs_backslash(ch, first):
    o = ord(ch)
    if o < 32:
        return True
    if ('a' <= ch <= 'z') or ('A' <= ch <= 'Z') or ('0' <= ch <= '9'):
        return False
    if ch in SAFE_EXTRA:
        return False
    return True


def quote_fragment(data):
    out = ''
    first = True
    for ch in data:
        if _needs_backslash(ch, first):
            out += '\\'
        out += ch
        first = False
    return out


def field(text, vars=()):
    line = fgetline(text)
    if line is None:
        return None
    e = expand(line, vars)
    if e is None:
        return None
    args = argv_split(e)
    if args is None:
        return None
    out = ''
    for a in args:
        if a == '':
            continue                 # empty fragments are dropped
        if len(a) < 2 or a[0] != '-' or not (('a' <= a[1] <= 'z') or ('A' <= a[1] <= 'Z')):
            return None              # untyped fragments are merged into their neighbours: declined
        if a[1] in 'IL' or a.startswith('-framework') or a.startswith('-isystem') or \
                a.startswith('-idirafter'):
            return None              # directory fragments are filtered / reordered: declined
        out += a[:2] + quote_fragment(a[2:]) + ' '
    return out

"""rmake -- reference model of how GNU Make 4.3 reads the text bfg9000 writes.

Source of truth: GNU Make manual (3.1.1 splitting lines, 4.4 wildcards, 5.1 recipe syntax, 6.2 / 6.5
flavours and setting, 8.8 call) and the behaviour of read.c / variable.c / job.c of make 4.3;
validated at run time against /usr/bin/make by vpx.conformance.  Plain character loops so that
CrossHair can execute the model symbolically.
"""


def lookup(vars, name):
    """vars is a list of (name, value) pairs (no dict: symbolic keys would be realised)."""
    for k, v in vars:
        if k == name:
            return v
    return None


def expand(text, vars=(), depth=0):
    """Expansion of a string by Make: $$ -> $, $x / $(name) / ${name} -> variable value (simple
    variables: inserted verbatim; recursive ones, marked by a value tuple ('rec', text), are
    expanded again).  Anything else after '$' (functions, unknown variables, unterminated refs)
    gives None."""
    out = ''
    i = 0
    n = len(text)
    while i < n:
        c = text[i]
        if c != '$':
            out += c
            i += 1
            continue
        if i + 1 >= n:
            return None
        d = text[i + 1]
        if d == '$':
            out += '$'
            i += 2
            continue
        if d == '(' or d == '{':
            close = ')' if d == '(' else '}'
            # matching close, counting nested references of the same bracket kind
            depth_b = 0
            j = i + 2
            while j < n:
                if text[j] == d:
                    depth_b += 1
                elif text[j] == close:
                    if depth_b == 0:
                        break
                    depth_b -= 1
                j += 1
            if j >= n:
                return None
            name = text[i + 2:j]
            i = j + 1
            sp = name.find(' ')
            if sp > 0 and (name[:sp] == 'patsubst' or name[:sp] == 'subst' or name[:sp] == 'call'):
                r = _function(name[:sp], name[sp + 1:], vars, depth, d)
                if r is None:
                    return None
                out += r
                continue
        else:
            name = d
            i += 2
        val = lookup(vars, name)
        if val is None:
            return None
        if isinstance(val, tuple):
            if depth > 3:
                return None
            val = expand(val[1], vars, depth + 1)
            if val is None:
                return None
        out += val
    return out


def _split_args(text, opener='('):
    """function arguments: split at commas outside nested brackets of the kind that opened the
    function reference (function.c handle_function counts only that kind)"""
    closer = ')' if opener == '(' else '}'
    args = []
    cur = ''
    depth = 0
    for ch in text:
        if ch == opener:
            depth += 1
        elif ch == closer:
            depth -= 1
        if ch == ',' and depth == 0:
            args.append(cur)
            cur = ''
        else:
            cur += ch
    args.append(cur)
    return args


def _words(text):
    out = []
    cur = ''
    for ch in text:
        if ch == ' ' or ch == '\t' or ch == '\n':
            if cur != '':
                out.append(cur)
                cur = ''
        else:
            cur += ch
    if cur != '':
        out.append(cur)
    return out


def _function(fname, argtext, vars, depth, opener='('):
    """$(subst from,to,text) and $(patsubst pattern,replacement,text) (function.c); the first
    argument keeps its leading blanks stripped as Make does for every function"""
    raw = _split_args(lstrip_blank(argtext), opener)
    if fname == 'call':
        # $(call var,a1,a2,...): expand the (recursive) variable with $(1), $(2), ... bound to the
        # expanded arguments; leading blanks of the first argument (the name) are stripped only
        vname = expand(raw[0], vars, depth + 1)
        if vname is None:
            return None
        body = lookup(vars, rstrip_blank(vname))
        if not isinstance(body, tuple):
            return None
        bound = []
        for k, a in enumerate(raw[1:]):
            e = expand(a, vars, depth + 1)
            if e is None:
                return None
            bound.append((str(k + 1), e))
        for k in range(len(raw), 10):
            bound.append((str(k), ''))
        return expand(body[1], bound + list(vars), depth + 1)
    if len(raw) < 3:
        return None
    if len(raw) > 3:
        raw = raw[:2] + [','.join(raw[2:])]
    args = []
    for a in raw:
        e = expand(a, vars, depth + 1)
        if e is None:
            return None
        args.append(e)
    if fname == 'subst':
        if args[0] == '':
            return args[2] + args[1]
        return args[2].replace(args[0], args[1])
    # patsubst: word by word, whitespace normalised to single blanks
    pat, rep, text = args
    k = pat.find('%')
    res = []
    for w in _words(text):
        if k < 0:
            res.append(rep if w == pat else w)
            continue
        pre, suf = pat[:k], pat[k + 1:]
        if len(w) >= len(pre) + len(suf) and w.startswith(pre) and w.endswith(suf):
            stem = w[len(pre):len(w) - len(suf)]
            kr = rep.find('%')
            res.append(rep if kr < 0 else rep[:kr] + stem + rep[kr + 1:])
        else:
            res.append(w)
    return ' '.join(res)


def strip_recipe_prefix(line):
    """job.c start_job_command: leading blanks and the characters @ - + are flags, not text."""
    i = 0
    n = len(line)
    while i < n and (line[i] == '@' or line[i] == '-' or line[i] == '+' or
                     line[i] == ' ' or line[i] == '\t'):
        i += 1
    return line[i:]


def continues(line):
    """A line ending in an odd number of backslashes swallows the following newline."""
    k = 0
    n = len(line)
    while k < n and line[n - 1 - k] == '\\':
        k += 1
    return k % 2 == 1


def recipe(text, vars=()):
    """The string handed to `$(SHELL) -c` for one recipe line (without its leading TAB)."""
    if continues(text):
        return None
    e = expand(text, vars)
    if e is None:
        return None
    return strip_recipe_prefix(e)


def strip_comment(line):
    """read.c remove_comments / find_char_unquote for '#': an unescaped '#' ends the line; a run
    of k backslashes before '#' is halved and, if k is odd, the '#' is literal."""
    out = ''
    i = 0
    n = len(line)
    while i < n:
        c = line[i]
        if c == '\\':
            j = i
            while j < n and line[j] == '\\':
                j += 1
            k = j - i
            if j < n and line[j] == '#':
                out += '\\' * (k // 2)
                if k % 2 == 1:
                    out += '#'
                    i = j + 1
                    continue
                return out
            out += line[i:j]
            i = j
            continue
        if c == '#':
            return out
        out += c
        i += 1
    return out


def lstrip_blank(s):
    i = 0
    while i < len(s) and (s[i] == ' ' or s[i] == '\t'):
        i += 1
    return s[i:]


def rstrip_blank(s):
    j = len(s)
    while j > 0 and (s[j - 1] == ' ' or s[j - 1] == '\t'):
        j -= 1
    return s[:j]


def assign_value(rhs, vars=()):
    """Value stored by `NAME := rhs` where *rhs* is the raw text after ':='.

    Comment stripping happens on the whole logical line before the assignment is recognised; the
    caller passes the right-hand side only, which is equivalent as long as the left-hand side has
    no '#' or backslash (true for every name bfg9000 writes).  Leading blanks are dropped;
    trailing blanks are kept unless a comment was cut (then make keeps them as well); the value is
    expanded once, immediately."""
    if continues(rhs):
        return None
    v = lstrip_blank(strip_comment(rhs))
    return expand(v, vars)


# ----------------------------------------------------------------- names in rule lines

GLOBCH = '*?['


def _glob_word(w, existing):
    """what glob(3) makes of one word (see rule_words)"""
    has = False
    for ch in w:
        if ch in GLOBCH:
            has = True
    if not has:
        return w
    if existing is None:
        existing = ()
        for ch in w:
            if ch == '*' or ch == '?' or ch == chr(92):
                return None
    lit = ''
    i = 0
    n = len(w)
    while i < n:
        c = w[i]
        if c == chr(92) and i + 1 < n:
            lit += w[i + 1]        # glob: a backslash quotes the next character
            i += 2
            continue
        if c == '[' and w.find(']', i + 2) < 0:
            lit += c               # no closing bracket: glob(3) takes '[' literally
            i += 1
            continue
        if c in GLOBCH:
            return None            # a live wildcard: the result depends on the directory
        lit += c
        i += 1
    if lit == w:
        return w
    for e in existing:
        if e == lit:
            return lit
    return w


def include_words(text, vars=(), existing=None):
    """file names read by `include <text>` / `-include <text>`: variables expanded, words split at
    blanks (backslash-blank joins), nothing else is un-escaped (a backslash before ':' or '%'
    stays in the name), wildcards as in rule_words, a leading '~' expands."""
    e = expand(text, vars)
    if e is None:
        return None
    words = []
    cur = None
    i = 0
    n = len(e)
    while i < n:
        c = e[i]
        if c == '#':
            return None
        if c == chr(92):
            j = i
            while j < n and e[j] == chr(92):
                j += 1
            k = j - i
            if j < n and e[j] == '\t':
                return None
            if j < n and (e[j] == ' ' or e[j] == '#'):
                cur = (cur or '') + chr(92) * (k // 2)
                if k % 2 == 1:
                    cur += e[j]
                    i = j + 1
                else:
                    i = j
                    if e[j] == '#':
                        return None
                continue
            if j >= n:
                return None
            cur = (cur or '') + chr(92) * k
            i = j
            continue
        if c == ' ' or c == '\t':
            if cur is not None:
                words.append(cur)
                cur = None
            i += 1
            continue
        cur = (cur or '') + c
        i += 1
    if cur is not None:
        words.append(cur)
    out = []
    for w in words:
        if w[0] == '~' or w.strip(' ') == '':
            return None
        g = _glob_word(w, existing)
        if g is None:
            return None
        out.append(g)
    return out


def rule_words(seg, position, vars=(), existing=None):
    """File names GNU Make 4.3 derives from `seg`, the text of the target list (position
    'target', up to but not including the ':' that ends it) or of a prerequisite list (position
    'prereq') of an explicit rule.  Returns the list of names, or None whenever Make would do
    anything other than read a plain list of literal file names: comment, variable reference,
    recipe/assignment/static-pattern syntax, pattern rule, order-only separator, tilde or wildcard
    expansion (whose result depends on the directory contents), archive member syntax.

    Rules modelled (read.c: find_map_unquote / find_percent / parse_file_seq, validated against
    /usr/bin/make): variables are expanded first ($$ -> $); a run of k backslashes before a stop
    character (blank, ':', '#', and '%' in targets, '|' in prerequisites) is halved and, if k is
    odd, makes that character literal; backslashes before anything else stay; blanks separate
    words.  A word containing a wildcard character is handed to glob(3): with `existing` (a list
    of file names present in the directory) given, a word whose wildcard characters are all
    backslash-escaped resolves to the existing file of that literal name, or stays verbatim
    (backslashes included) when there is none; an unescaped wildcard is state-dependent -> None.
    With `existing` None any wildcard character makes the model decline."""
    e = expand(seg, vars)
    if e is None:
        return None
    stops = ' \t:#%' if position == 'target' else ' \t:#|'
    words = []
    cur = None
    i = 0
    n = len(e)
    while i < n:
        c = e[i]
        if c == ';' or c == '=':
            return None
        if c == '\\':
            j = i
            while j < n and e[j] == '\\':
                j += 1
            k = j - i
            if j < n and e[j] == '\t':
                return None        # backslash-TAB is not an escaped blank for Make
            if j < n and e[j] in stops:
                cur = (cur or '') + '\\' * (k // 2)
                if k % 2 == 1:
                    cur += e[j]
                    i = j + 1
                else:
                    i = j          # the stop character acts as itself
                continue
            if j >= n:
                return None        # trailing backslash: would swallow what follows
            cur = (cur or '') + '\\' * k
            i = j
            continue
        if c == ' ' or c == '\t':
            if cur is not None:
                words.append(cur)
                cur = None
            i += 1
            continue
        if c in stops:
            return None            # unescaped ':', '#', '%' (target) or '|' (prerequisite)
        cur = (cur or '') + c
        i += 1
    if cur is not None:
        words.append(cur)
    out = []
    for w in words:
        if w[0] == '~':
            return None
        if w.strip(' ') == '':
            return None            # a name made of blanks only is not kept apart by Make
        if position == 'target' and w[-1] == ' ':
            return None            # an escaped blank at the end of a target word swallows the
                                   # following separator (names ending in a blank: unrepresentable)
        g = _glob_word(w, existing)
        if g is None:
            return None
        out.append(g)
    words = out
    for w in words:
        k = w.find('(')
        if k > 0 and w[-1] == ')' and len(w) - 1 != k + 1:
            return None            # archive(member) syntax (ar_name in GNU Make)
    if position == 'target' and words and words[-1][-1] == '&':
        return None                # 'a&:' is the grouped-target separator
    return words

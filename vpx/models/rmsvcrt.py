"""rmsvcrt -- reference model of the Microsoft C runtime command-line parser (parse_cmdline,
VS2008+ rules) for the arguments after the program name, and of `cmd /s /c "..."` quote stripping.

Source of truth: Microsoft docs "Parsing C command-line arguments": arguments are delimited by
space/tab; a string in double quotes is one argument regardless of white space; 2n backslashes + "
-> n backslashes and a quote delimiter; 2n+1 backslashes + " -> n backslashes and a literal ";
backslashes not followed by " are literal; inside a quoted string "" is a literal ".
No Windows in this sandbox: TRUSTED, cross-checked against the repository's own windows.split (itself
under test).  Plain loops for CrossHair."""


def argv(line):
    args = []
    cur = None
    i = 0
    n = len(line)
    inq = False
    while True:
        if cur is None:
            while i < n and (line[i] == ' ' or line[i] == '\t'):
                i += 1
            if i >= n:
                break
            cur = ''
        if i >= n:
            args.append(cur)
            break
        c = line[i]
        if (c == ' ' or c == '\t') and not inq:
            args.append(cur)
            cur = None
            continue
        nb = 0
        while i < n and line[i] == '\\':
            nb += 1
            i += 1
        if i < n and line[i] == '"':
            cur += '\\' * (nb // 2)
            if nb % 2 == 1:
                cur += '"'
            else:
                if inq and i + 1 < n and line[i + 1] == '"':
                    cur += '"'
                    i += 1
                else:
                    inq = not inq
            i += 1
            continue
        cur += '\\' * nb
        if nb == 0:
            cur += c
            i += 1
    return args


def cmd_s_c(line):
    """`cmd /s /c "<rest>"`: with /s cmd strips exactly the first and the last quote of the text
    after /c and runs the rest.  Returns the inner command line or None."""
    head = 'cmd /s /c "'
    if not line.startswith(head) or not line.endswith('"') or len(line) < len(head) + 1:
        return None
    return line[len(head):-1]

"""rninja -- reference model of how Ninja reads the manifest text bfg9000 writes.

Source of truth: the Ninja manual (lexical syntax, variables, evaluation and scoping) and
src/lexer.in.cc (ReadEvalString), src/eval_env.cc, src/util.cc (GetShellEscapedString) of ninja
1.10/1.11.  There is no ninja binary in this sandbox: the model is TRUSTED (hand-checked against the
manual's examples and the expected strings of the repository's own test/unit/backends/ninja).
Plain character loops so CrossHair can execute it symbolically.
"""
import re


def lookup(vars, name):
    for k, v in vars:
        if k == name:
            return v
    return None


def _simple_name_char(c):
    return ('a' <= c <= 'z') or ('A' <= c <= 'Z') or ('0' <= c <= '9') or c == '_' or c == '-'


def eval_string(text, vars=(), path=False, start=0):
    """ReadEvalString + Evaluate.  Returns (value, end index) or None on a lexer error.

    path=False: a variable value, read to the end of the text (one line; no newline inside).
    path=True : a path; reading stops at an unescaped space, ':' or '|'.
    Unknown variables evaluate to the empty string (as in ninja)."""
    out = ''
    i = start
    n = len(text)
    while i < n:
        c = text[i]
        if c == '\0' or c == '\n' or c == '\r':
            return None
        if path and (c == ' ' or c == ':' or c == '|'):
            break
        if c != '$':
            out += c
            i += 1
            continue
        if i + 1 >= n:
            return None
        d = text[i + 1]
        if d == '$' or d == ' ' or d == ':':
            out += d
            i += 2
            continue
        if d == '{':
            j = text.find('}', i + 2)
            if j < 0 or j == i + 2:
                return None
            name = text[i + 2:j]
            for ch in name:
                if not (_simple_name_char(ch) or ch == '.'):
                    return None
            i = j + 1
        elif _simple_name_char(d):
            j = i + 1
            while j < n and _simple_name_char(text[j]):
                j += 1
            name = text[i + 1:j]
            i = j
        else:
            return None
        val = lookup(vars, name)
        if val is not None:
            out += val
    return out, i


def value(rhs, vars=()):
    """Value of `name = rhs`: leading spaces skipped, then an eval string to end of line."""
    i = 0
    while i < len(rhs) and rhs[i] == ' ':
        i += 1
    r = eval_string(rhs, vars, False, i)
    if r is None:
        return None
    return r[0]


def paths(text, vars=(), start=0):
    """A space separated path list up to ':' / '|' / end.  Returns (list, end index) or None."""
    out = []
    i = start
    n = len(text)
    while True:
        while i < n and text[i] == ' ':
            i += 1
        if i >= n or text[i] == ':' or text[i] == '|':
            return out, i
        r = eval_string(text, vars, True, i)
        if r is None:
            return None
        p, j = r
        if j == i:
            return None
        out.append(p)
        i = j


def build_line(text, vars=()):
    """Parse `build outs: rule ins | implicit || order_only`.  Returns a dict or None."""
    if not text.startswith('build '):
        return None
    r = paths(text, vars, 6)
    if r is None:
        return None
    outs, i = r
    if i >= len(text) or text[i] != ':' or not outs:
        return None
    i += 1
    while i < len(text) and text[i] == ' ':
        i += 1
    j = i
    while j < len(text) and (_simple_name_char(text[j]) or text[j] == '.'):
        j += 1
    rule = text[i:j]
    if not rule:
        return None
    r = paths(text, vars, j)
    if r is None:
        return None
    ins, i = r
    implicit = []
    order_only = []
    if text[i:i + 2] == '||':
        r = paths(text, vars, i + 2)
        if r is None:
            return None
        order_only, i = r
    elif text[i:i + 1] == '|':
        r = paths(text, vars, i + 1)
        if r is None:
            return None
        implicit, i = r
        if text[i:i + 2] == '||':
            r = paths(text, vars, i + 2)
            if r is None:
                return None
            order_only, i = r
    if i != len(text):
        return None
    return {'outputs': outs, 'rule': rule, 'inputs': ins, 'implicit': implicit,
            'order_only': order_only}


_UNSAFE = re.compile(r'[^A-Za-z0-9_+\-./]')


def shell_escape(p):
    """util.cc GetShellEscapedString (used for $in / $out)."""
    if _UNSAFE.search(p) is None:
        return p
    return "'" + p.replace("'", "'\\''") + "'"


def manifest(text):
    """Evaluate a whole manifest (the subset bfg9000 writes: comments, file-level bindings, rule
    blocks, build statements with indented bindings, default).  File-level bindings and build
    bindings are evaluated when read, with the file scope *as it is at that point*; rule bindings
    are kept raw and evaluated per edge.  Returns (filevars, rules, builds) or None."""
    filevars = []
    rules = {}
    builds = []
    cur = None           # ('rule', name) or ('build', dict)
    for line in text.split('\n'):
        if line == '' or line.lstrip(' ').startswith('#'):
            if line == '':
                cur = None
            continue
        if line.startswith('  '):
            if cur is None:
                return None
            body = line.lstrip(' ')
            k = body.find(' = ')
            if k < 0:
                return None
            name, rhs = body[:k], body[k + 3:]
            if cur[0] == 'rule':
                rules[cur[1]].append((name, rhs))
            else:
                v = value(rhs, filevars)
                if v is None:
                    return None
                cur[1]['vars'].append((name, v))
            continue
        if line.startswith('rule '):
            cur = ('rule', line[5:])
            rules[cur[1]] = []
            continue
        if line.startswith('build '):
            b = build_line(line, filevars)
            if b is None:
                return None
            b['vars'] = []
            builds.append(b)
            cur = ('build', b)
            continue
        if line.startswith('default '):
            cur = None
            continue
        k = line.find(' = ')
        if k < 0:
            return None
        v = value(line[k + 3:], filevars)
        if v is None:
            return None
        filevars = [(line[:k], v)] + filevars
        cur = None
    return filevars, rules, builds


def command_of(man, output):
    """the command ninja runs to produce `output` (None if there is no such non-phony edge)"""
    filevars, rules, builds = man
    for b in builds:
        if output in b['outputs'] and b['rule'] != 'phony':
            env = [('in', ' '.join(shell_escape(i) for i in b['inputs'])),
                   ('out', ' '.join(shell_escape(o) for o in b['outputs']))] + b['vars'] + filevars
            for name, rhs in rules[b['rule']]:
                if name == 'command':
                    return value(rhs, env)
    return None

"""rdep -- reference reader for compiler-written dependency files (the grammar gcc -MMD emits):

    file  := rule+
    rule  := word (blank+ word)* ':' (blank+ [cont] word)* blank* NL
    cont  := '\\' NL blank*           (only where a blank may stand)
    word  := (escape | ordinary)+     escape := '\\' any-char-but-NL ; ordinary := not blank/NL/'\\'
             a ':' inside a word is ordinary unless followed by blank / NL / end (then it ends the
             targets); '::' is outside the grammar

`deps(text)` returns the list of prerequisite words *verbatim* (escapes kept: Make will read them
again) of every rule, in order, or None if the text is outside the grammar.  Validated at run time
against depfiles written by the real gcc (vpx.props.c07.conformance)."""


def deps(text):
    out = []
    i = 0
    n = len(text)
    if n == 0:
        return None
    while i < n:
        # ---- targets
        have_target = False
        cur = None
        while True:
            if i >= n:
                return None
            c = text[i]
            if c == '\n':
                return None
            if c == ' ' or c == '\t':
                if cur is not None:
                    have_target = True
                    cur = None
                i += 1
                continue
            if c == ':' and (i + 1 >= n or text[i + 1] == ' ' or text[i + 1] == '\t' or
                             text[i + 1] == '\n'):
                if cur is None and not have_target:
                    return None
                i += 1
                break
            if c == '\\':
                if i + 1 >= n or text[i + 1] == '\n':
                    return None
                cur = (cur or '') + text[i:i + 2]
                i += 2
                continue
            if c == ':' and text[i + 1] == ':':
                return None          # 'x::' (double-colon rules) is outside the grammar
            cur = (cur or '') + c
            i += 1
        # ---- prerequisites up to the newline
        cur = None
        while True:
            if i >= n:
                return None          # a rule must end with a newline
            c = text[i]
            if c == '\n':
                if cur is not None:
                    out.append(cur)
                i += 1
                break
            if c == ' ' or c == '\t':
                if cur is not None:
                    out.append(cur)
                    cur = None
                i += 1
                continue
            if c == '\\':
                if i + 1 >= n:
                    return None
                if text[i + 1] == '\n':
                    if cur is not None:
                        return None  # continuation glued to a word: outside the grammar
                    i += 2
                    continue
                cur = (cur or '') + text[i:i + 2]
                i += 2
                continue
            if c == ':' and (i + 1 >= n or text[i + 1] == ' ' or text[i + 1] == '\t' or
                             text[i + 1] == '\n'):
                return None          # second rule separator on one line
            if c == ':' and text[i + 1] == ':':
                return None
            cur = (cur or '') + c
            i += 1
    return out

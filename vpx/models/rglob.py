"""rglob -- the documented glob rules of find_files (doc/reference/builtins.md), as an executable
specification.  It *is* the spec: nothing to validate against.

  *  0 or more of any character        ?  exactly one character
  [abc] one of abc                      [!abc] one character not in abc
  ** 0 or more path components          (only as a whole component of a path pattern)
  a pattern ending in '/' selects directories, otherwise files; type f / d / * overrides
  simple globs (extra, exclude) have no ** and are matched against the basename only
  an excluded directory excludes everything below it
"""


def comp_match(pat, name):
    """one path component against a simple glob (recursive, no regex involved)"""
    if pat == '':
        return name == ''
    c = pat[0]
    if c == '*':
        if comp_match(pat[1:], name):
            return True
        return name != '' and comp_match(pat, name[1:])
    if name == '':
        return False
    if c == '?':
        return comp_match(pat[1:], name[1:])
    if c == '[':
        j = pat.find(']', 2 if pat[1:2] in ('!', ']') else 1)
        if pat[1:2] == '!' and pat[2:3] == ']':
            j = pat.find(']', 3)
        if j < 0:
            return name[0] == '[' and comp_match(pat[1:], name[1:])
        body = pat[1:j]
        neg = body[:1] == '!'
        if neg:
            body = body[1:]
        hit = False
        k = 0
        while k < len(body):
            if k + 2 < len(body) and body[k + 1] == '-':
                if body[k] <= name[0] <= body[k + 2]:
                    hit = True
                k += 3
            else:
                if body[k] == name[0]:
                    hit = True
                k += 1
        if hit == neg:
            return False
        return comp_match(pat[j + 1:], name[1:])
    return c == name[0] and comp_match(pat[1:], name[1:])


def path_match(pat_bits, comps):
    """component list against a path pattern; '**' = zero or more components"""
    if not pat_bits:
        return not comps
    if pat_bits[0] == '**':
        if path_match(pat_bits[1:], comps):
            return True
        return bool(comps) and path_match(pat_bits, comps[1:])
    return bool(comps) and comp_match(pat_bits[0], comps[0]) and path_match(pat_bits[1:], comps[1:])


def type_ok(pat_isdir, typ, isdir):
    if typ is None:
        return isdir == pat_isdir
    if typ == 'f':
        return not isdir
    if typ == 'd':
        return isdir
    return True


def selects(pattern, typ, comps, isdir):
    """pattern: 'a/**/b' or 'a/*/' ; comps: list of names relative to the root"""
    pat_isdir = pattern.endswith('/')
    bits = [b for b in pattern.split('/') if b]
    return path_match(bits, comps) and type_ok(pat_isdir, typ, isdir)


def name_selects(pattern, typ, name, isdir):
    pat_isdir = pattern.endswith('/')
    return comp_match(pattern.rstrip('/'), name) and type_ok(pat_isdir, typ, isdir)

"""rsh -- reference model of POSIX sh parsing for the fragment bfg9000 emits.

Source of truth: POSIX XCU 2.2 (quoting), 2.3 (token recognition), 2.6.1 (tilde), 2.9.1 (simple
commands); validated at run time against /bin/sh (dash) by vpx.conformance.

``parse(line)`` returns a list of simple commands joined by ``&&``; each command is
``(assignments, argv)`` with ``assignments`` a list of ``(name, value)``.  It returns ``None``
("unsafe") as soon as the shell would do anything other than deliver literal characters: an
unquoted ``$ ` " * ? [ ; | & < > ( )`` (except the ``&&`` operator), a ``#`` or ``~`` in a position
where it is special, a reserved word ``! { }`` in command position, an unterminated quote or a
trailing backslash.  Written with plain loops over characters so that CrossHair can execute it
symbolically.
"""

BLANK = ' \t'
# always special when unquoted
HARD = '$`"*?[;|<>()\n'


def _is_name(s):
    if len(s) == 0:
        return False
    c = s[0]
    if not (c == '_' or 'a' <= c <= 'z' or 'A' <= c <= 'Z'):
        return False
    for c in s[1:]:
        if not (c == '_' or 'a' <= c <= 'z' or 'A' <= c <= 'Z' or '0' <= c <= '9'):
            return False
    return True


def words(line):
    """Tokenise into words.  Returns a list of (text, first_eq, plain, tilde) or None if unsafe.

    text      the word after quote removal ('&&' operator is returned as text None)
    first_eq  index in *text* of the first unquoted '=' whose prefix was entirely unquoted, or -1
    plain     True if the whole word was written without any quoting (needed for reserved words)
    tilde     True if an unquoted '~' directly follows the first '=' or a later unquoted ':' -- a
              tilde-prefix if (and only if) the word is an assignment (XCU 2.6.1)
    """
    out = []
    i = 0
    n = len(line)
    while i < n:
        c = line[i]
        if c == ' ' or c == '\t':
            i += 1
            continue
        if c == '&':
            if i + 1 < n and line[i + 1] == '&':
                out.append((None, -1, True, False))
                i += 2
                continue
            return None
        if c == '#':
            return None          # comment at word start
        # start of a word
        text = ''
        first_eq = -1
        plain = True
        prefix_unquoted = True
        start = True
        after_sep = False        # previous unquoted char was the first '=' or a ':' after it
        tilde = False
        while i < n:
            c = line[i]
            if c == ' ' or c == '\t':
                break
            if c == "'":
                j = line.find("'", i + 1)
                if j < 0:
                    return None
                text += line[i + 1:j]
                i = j + 1
                plain = False
                prefix_unquoted = False
                start = False
                after_sep = False
                continue
            if c == '\\':
                if i + 1 >= n:
                    return None
                text += line[i + 1]
                i += 2
                plain = False
                prefix_unquoted = False
                start = False
                after_sep = False
                continue
            if c == '&':
                break
            if c in HARD:
                return None
            if c == '~' and start:
                return None
            if c == '~' and after_sep:
                tilde = True
            if c == '=' and first_eq < 0 and prefix_unquoted:
                first_eq = len(text)
                after_sep = True
            else:
                after_sep = (c == ':' and first_eq >= 0)
            text += c
            i += 1
            start = False
        out.append((text, first_eq, plain, tilde))
    return out


def parse(line):
    ws = words(line)
    if ws is None:
        return None
    cmds = []
    assigns = []
    argv = []
    have_cmd = False
    export = False
    for text, first_eq, plain, tilde in ws:
        if text is None:                 # &&
            if not have_cmd and not assigns:
                return None
            cmds.append((assigns, argv))
            assigns = []
            argv = []
            have_cmd = False
            export = False
            continue
        if not have_cmd:
            if first_eq > 0 and _is_name(text[:first_eq]):
                if tilde:
                    return None
                assigns.append((text[:first_eq], text[first_eq + 1:]))
                continue
            if plain and (text == '!' or text == '{' or text == '}'):
                return None
            have_cmd = True
            export = plain and text == 'export'
        elif export and tilde and first_eq > 0 and _is_name(text[:first_eq]):
            return None          # arguments of the declaration utility are assignments
        argv.append(text)
    if not have_cmd and not assigns:
        return None if cmds else []
    cmds.append((assigns, argv))
    return cmds


def argv(line):
    """argv of a line that is exactly one simple command without assignments, else None."""
    p = parse(line)
    if p is None or len(p) != 1:
        return None
    assigns, args = p[0]
    if assigns:
        return None
    return args


def run(line):
    """Effect of the line as (env seen by the last command, argv of the last command).

    `export N=v && ...` and `N=v cmd` both put N into the command's environment.  Returns None if
    unsafe or if a command other than `export` precedes the last one."""
    p = parse(line)
    if p is None or not p:
        return None
    env = {}
    for assigns, args in p[:-1]:
        if not args:
            for k, v in assigns:
                env[k] = v
            continue
        if args[0] != 'export' or assigns:
            return None
        for a in args[1:]:
            k = a.find('=')
            if k <= 0 or not _is_name(a[:k]):
                return None
            env[a[:k]] = a[k + 1:]
    assigns, args = p[-1]
    for k, v in assigns:
        env[k] = v
    return env, args

"""Sensitivity twins: deliberately broken variants of the real functions, installed by
monkey-patching the live modules in the worker process (never written to /repo).  A check that
claims to detect realistic changes must refute each of them."""
import re

REG = {}


def mutant(name):
    def deco(fn):
        REG[name] = fn
        return fn
    return deco


def apply(name):
    REG[name]()


@mutant('posix_quote_safe')
def _m1():
    # "'" considered safe by the sh quoting table
    from bfg9000.shell import posix
    posix._bad_chars = re.compile(r"[^\w@%+=:,./'-]")


@mutant('make_no_dollar')
def _m2():
    # '$' no longer doubled for Make
    from bfg9000.backends.make import syntax
    orig = syntax.Writer.escape_str.__func__

    def escape_str(cls, string, syn):
        if syn in (syntax.Syntax.shell, syntax.Syntax.clean):
            if '\n' in string:
                raise ValueError('illegal newline')
            return string
        return orig(cls, string, syn)
    syntax.Writer.escape_str = classmethod(escape_str)


@mutant('ninja_no_dollar')
def _m3():
    # '$' no longer doubled in ninja shell syntax
    from bfg9000.backends.ninja import syntax
    orig = syntax.Writer.escape_str

    def escape_str(string, syn):
        if syn in (syntax.Syntax.shell, syntax.Syntax.clean):
            if '\n' in string:
                raise ValueError('illegal newline')
            return string
        return orig(string, syn)
    syntax.Writer.escape_str = staticmethod(escape_str)


@mutant('ninja_path_no_colon')
def _m4():
    # ':' no longer escaped in ninja paths
    from bfg9000.backends.ninja import syntax

    def escape_str(string, syn):
        if '\n' in string:
            raise ValueError('illegal newline')
        if syn in (syntax.Syntax.output, syntax.Syntax.input):
            return re.sub(r'([$ ])', r'$\1', string)
        return string.replace('$', '$$')
    syntax.Writer.escape_str = staticmethod(escape_str)


@mutant('within_dir_unescaped_dots')
def _m5():
    # the regex as it was before the fix: every two-character component becomes PAR
    from bfg9000.builtins import path as bpath

    def within_directory(path, directory):
        suffix = path.relpath(directory.parent(), localize=False)
        suffix = re.sub(r'(^|/)..(?=/|$)', r'\1PAR', suffix)
        return directory.append(suffix)
    bpath.within_directory = within_directory


@mutant('within_dir_no_par')
def _m6():
    # parent references no longer rewritten: outputs escape the intermediate directory
    from bfg9000.builtins import path as bpath

    def within_directory(path, directory):
        suffix = path.relpath(directory.parent(), localize=False)
        return directory.append(suffix)
    bpath.within_directory = within_directory

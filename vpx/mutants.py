"""Sensitivity twins: deliberately broken variants of the real functions, installed by
monkey-patching the live modules in the worker process (never written to /repo).  A check that
claims to detect realistic changes must refute each of them."""
import re

REG = {}


def mutant(name):
    def deco(fn):
        REG[name] = fn
        return fn
    return deco


def apply(name):
    REG[name]()


@mutant('posix_quote_safe')
def _m1():
    # "'" considered safe by the sh quoting table
    from bfg9000.shell import posix
    posix._bad_chars = re.compile(r"[^\w@%+=:,./'-]")


@mutant('make_no_dollar')
def _m2():
    # '$' no longer doubled for Make
    from bfg9000.backends.make import syntax
    orig = syntax.Writer.escape_str.__func__

    def escape_str(cls, string, syn):
        if syn in (syntax.Syntax.shell, syntax.Syntax.clean):
            if '\n' in string:
                raise ValueError('illegal newline')
            return string
        return orig(cls, string, syn)
    syntax.Writer.escape_str = classmethod(escape_str)


@mutant('ninja_no_dollar')
def _m3():
    # '$' no longer doubled in ninja shell syntax
    from bfg9000.backends.ninja import syntax
    orig = syntax.Writer.escape_str

    def escape_str(string, syn):
        if syn in (syntax.Syntax.shell, syntax.Syntax.clean):
            if '\n' in string:
                raise ValueError('illegal newline')
            return string
        return orig(string, syn)
    syntax.Writer.escape_str = staticmethod(escape_str)


@mutant('ninja_path_no_colon')
def _m4():
    # ':' no longer escaped in ninja paths
    from bfg9000.backends.ninja import syntax

    def escape_str(string, syn):
        if '\n' in string:
            raise ValueError('illegal newline')
        if syn in (syntax.Syntax.output, syntax.Syntax.input):
            return re.sub(r'([$ ])', r'$\1', string)
        return string.replace('$', '$$')
    syntax.Writer.escape_str = staticmethod(escape_str)


@mutant('within_dir_unescaped_dots')
def _m5():
    # the regex as it was before the fix: every two-character component becomes PAR
    from bfg9000.builtins import path as bpath

    def within_directory(path, directory):
        suffix = path.relpath(directory.parent(), localize=False)
        suffix = re.sub(r'(^|/)..(?=/|$)', r'\1PAR', suffix)
        return directory.append(suffix)
    bpath.within_directory = within_directory


@mutant('within_dir_no_par')
def _m6():
    # parent references no longer rewritten: outputs escape the intermediate directory
    from bfg9000.builtins import path as bpath

    def within_directory(path, directory):
        suffix = path.relpath(directory.parent(), localize=False)
        return directory.append(suffix)
    bpath.within_directory = within_directory


def _patch_basepath_init(transform):
    """helper: wrap BasePath.__init__ so that a mutant can post-process the constructed path"""
    from bfg9000.platforms import basepath
    orig = basepath.BasePath.__init__

    def __init__(self, path, root=basepath.Root.builddir, destdir=None, directory=None):
        transform(orig, self, path, root, destdir, directory)
    basepath.BasePath.__init__ = __init__


@mutant('path_no_escape_check')
def _m7():
    # "too many '..'" check dropped: paths may leave their root
    import posixpath

    def t(orig, self, path, root, destdir, directory):
        try:
            orig(self, path, root, destdir, directory)
        except ValueError as e:
            if 'too many' not in str(e):
                raise
            self.suffix = posixpath.normpath(path.replace('\\', '/'))
            self.root = root
            self.directory = bool(directory)
            self.destdir = bool(destdir)
    _patch_basepath_init(t)


@mutant('path_no_backslash')
def _m8():
    # backslash no longer treated as a separator
    from bfg9000.platforms import basepath
    import posixpath

    def normpath(path):
        isdir = posixpath.basename(path) in ('', posixpath.curdir, posixpath.pardir)
        path = posixpath.normpath(path)
        if path == posixpath.curdir:
            path = ''
        return path, isdir
    basepath.BasePath._BasePath__normpath = staticmethod(normpath)


@mutant('path_json_no_dir')
def _m9():
    # to_json forgets the trailing separator that carries the directory flag
    from bfg9000.platforms import basepath

    def to_json(self):
        return [self.suffix, self.root.name, self.destdir]
    basepath.BasePath.to_json = to_json


@mutant('relpath_no_origin_join')
def _m10():
    # prefix glued on without a separator
    from bfg9000.platforms import basepath
    import posixpath

    def relpath(self, start, prefix='', localize=True):
        if self.root == basepath.Root.absolute:
            return self.suffix
        if self.root != start.root:
            raise ValueError('source mismatch')
        rel = posixpath.relpath(self.suffix or posixpath.curdir, start.suffix or posixpath.curdir)
        if prefix and rel == posixpath.curdir:
            return prefix
        return prefix + rel
    basepath.BasePath.relpath = relpath


@mutant('commonprefix_minmax')
def _m11():
    # compares only the first two paths instead of min/max
    from bfg9000 import path as bpath

    def commonprefix(paths):
        if not paths or any(i.root != paths[0].root for i in paths):
            return None
        cls = type(paths[0])
        split = [i.split() for i in paths]
        lo, hi = split[0], split[0]
        for i, bit in enumerate(lo):
            if bit != hi[i]:
                return cls(cls.sep.join(lo[:i]), paths[0].root, directory=True)
        return cls(cls.sep.join(lo), paths[0].root, directory=(lo != hi))
    bpath.commonprefix = commonprefix
    import vpx.harness.c12 as h
    h.commonprefix = commonprefix


@mutant('simplify_ignores_ne')
def _m12():
    # the '>=V,<=V' collapse as it was before the fix: '!=V' ignored
    from bfg9000 import versioning
    from itertools import chain
    from bfg9000.iterutils import iterate

    def simplify_specifiers(spec):
        SpecifierSet = versioning.SpecifierSet

        def key(s):
            return (s.version, 1 if s.operator in ['>=', '<'] else 2)

        def in_bounds(v, lo, hi):
            if lo and v not in lo:
                return False
            if hi and v not in hi:
                return False
            return True
        gt = lt = eq = None
        ne = []
        for i in spec:
            if i.operator == '==':
                if eq is None:
                    eq = i
                elif eq != i:
                    raise ValueError('inconsistent')
            elif i.operator == '!=':
                ne.append(i)
            elif i.operator in ['>', '>=']:
                gt = i if gt is None else max(gt, i, key=key)
            elif i.operator in ['<', '<=']:
                lt = i if lt is None else min(lt, i, key=key)
            else:
                raise ValueError('invalid')
        ne = [i for i in ne if in_bounds(i.version, gt, lt)]
        if eq:
            if any(i.version in eq for i in ne) or not in_bounds(eq.version, gt, lt):
                raise ValueError('inconsistent')
            return SpecifierSet(str(eq))
        if lt and gt:
            if lt.version not in gt or gt.version not in lt:
                raise ValueError('inconsistent')
            if gt.version == lt.version and gt.operator == '>=' and lt.operator == '<=':
                return SpecifierSet('=={}'.format(gt.version))
        return SpecifierSet(','.join(str(i) for i in chain(iterate(gt), iterate(lt), ne)))
    versioning.simplify_specifiers = simplify_specifiers
    from bfg9000.builtins import pkg_config
    pkg_config.simplify_specifiers = simplify_specifiers


@mutant('simplify_max_for_lt')
def _m13():
    # keeps the *weakest* upper bound instead of the strongest
    from bfg9000 import versioning
    src = open(versioning.__file__).read()
    src = src.replace('lt = i if lt is None else min(lt, i, key=key)',
                      'lt = i if lt is None else max(lt, i, key=key)')
    ns = {'__name__': 'bfg9000.versioning', '__package__': 'bfg9000'}
    exec(compile(src, versioning.__file__, 'exec'), ns)
    ns['SpecifierSet'] = versioning.SpecifierSet
    f = ns['simplify_specifiers']
    f.__globals__['SpecifierSet'] = versioning.SpecifierSet
    versioning.simplify_specifiers = f
    from bfg9000.builtins import pkg_config
    pkg_config.simplify_specifiers = f


@mutant('win_no_backslash_doubling')
def _m14():
    # backslash runs before a quote / the end are no longer doubled
    from bfg9000.shell import windows as w

    def inner_quote_info(s, escape_percent=False):
        from bfg9000.safe_str import shell_literal
        if isinstance(s, shell_literal):
            return s.string, False
        if s == '':
            return '', True
        if escape_percent:
            s = s.replace('%', '%%')
        if not w._bad_chars.search(s):
            return s, False
        return s.replace('"', '\\"'), True
    w.inner_quote_info = inner_quote_info


@mutant('win_tab_safe')
def _m15():
    # only the space character (not every white-space) forces quoting
    from bfg9000.shell import windows as w
    w._bad_chars = re.compile(r'( |["&<>|]|\\$)')


@mutant('uuid_save_all')
def _m16():
    # harmless-looking: save every known GUID, not only the ones seen -> must NOT break the laws
    # checked here except "a removed project is forgotten"; used as a *negative control*: the
    # stronger mutant below must be caught
    from bfg9000.backends.msbuild import solution as msol
    orig = msol.UuidMap.__getitem__

    def getitem(self, key):
        self._seen.add(key)
        if key in self._map and key != 'b':
            return self._map[key]
        import uuid
        u = uuid.uuid4()
        self._map[key] = u
        return u
    msol.UuidMap.__getitem__ = getitem


@mutant('uuid_forget_load')
def _m17():
    # the saved map is read but its keys are dropped when the version matches exactly
    from bfg9000.backends.msbuild import solution as msol
    orig = msol.UuidMap._load.__func__

    def _load(cls, path):
        m = orig(cls, path)
        return {k: v for k, v in m.items() if k != 'b'}
    msol.UuidMap._load = classmethod(_load)


@mutant('sln_dep_wrong_uuid')
def _m18():
    # ProjectDependencies written with the solution's GUID instead of the dependency's
    from bfg9000.backends.msbuild import solution as msol
    src = open(msol.__file__).read()
    src = src.replace('.extend(Var(i.uuid_str, i.uuid_str)', '.extend(Var(self.uuid_str, self.uuid_str)')
    ns = {'__name__': 'bfg9000.backends.msbuild.solution', '__package__': 'bfg9000.backends.msbuild'}
    exec(compile(src, msol.__file__, 'exec'), ns)
    msol.Solution.write = ns['Solution'].write


def _depfixer_variant(old, new):
    from bfg9000 import depfixer
    src = open(depfixer.__file__).read()
    assert old in src
    src = src.replace(old, new)
    ns = {'__name__': 'bfg9000.depfixer', '__package__': 'bfg9000'}
    exec(compile(src, depfixer.__file__, 'exec'), ns)
    # keep the exception classes of the live module so that harness `except` clauses still match
    for name in ('tokenize', 'emit_deps'):
        fn = ns[name]
        fn.__globals__['ParseError'] = depfixer.ParseError
        fn.__globals__['UnexpectedTokenError'] = depfixer.UnexpectedTokenError
        setattr(depfixer, name, fn)


@mutant('depfixer_drop_escape')
def _m19():
    # the character after a backslash is emitted without its backslash
    _depfixer_variant("                yield (Token.char, '\\\\')\n                if c is None:",
                      "                if c is None:")


@mutant('depfixer_no_final_newline_rule')
def _m20():
    # a dependency directly followed by the newline is not terminated with ':'
    _depfixer_variant("""            elif tok == Token.newline:
                outstream.write(':\\n')
                state = State.target""", """            elif tok == Token.newline:
                outstream.write('\\n')
                state = State.target""")


@mutant('depfixer_colon_anywhere')
def _m21():
    # every ':' is a separator, also inside a word (C:/x style names)
    _depfixer_variant("""            if c is None or c in ' \\t\\n':""", """            if True:""")


@mutant('make_rule_registers_last_only')
def _m22():
    # only the last target of a multi-target rule is remembered for duplicate detection
    from bfg9000.backends.make import syntax as ms
    from bfg9000 import iterutils

    def rule(self, target, deps=None, order_only=None, recipe=None, variables=None, phony=False):
        targets = iterutils.listify(target)
        if len(targets) == 0:
            raise ValueError('must have at least one target')
        for i in targets:
            target = self._target_str(i)
            if self.has_rule(target):
                raise ValueError('rule for {!r} already exists'.format(target))
        self._targets.add(target)
        self._rules.append(ms.Rule(targets, iterutils.listify(deps), iterutils.listify(order_only),
                                   recipe, {}, phony))
    ms.Makefile.rule = rule


@mutant('ninja_build_str_only')
def _m23():
    # duplicate detection keyed on the object instead of its written form: 'a' and Path('a') differ
    from bfg9000.backends.ninja import syntax as ns

    def _output_str(self, name):
        return name if isinstance(name, str) else ('P', id(name))
    ns.NinjaFile._output_str = _output_str


@mutant('uniquetrees_string_sort')
def _m24():
    # sorts by the suffix string instead of the component list
    from bfg9000 import path as bpath

    def uniquetrees(paths):
        def ischild(a, b):
            for i, j in zip(a, b):
                if i != j:
                    return False
            return True
        if not paths:
            return []
        paths = [(i, [i.root.value] + i.split()) for i in paths]
        paths.sort(key=lambda i: (i[0].root.value, i[0].suffix))
        piter = iter(paths)
        p, last = next(piter)
        uniques = [p]
        for p, bits in piter:
            if not ischild(last, bits):
                last = bits
                uniques.append(p)
        return uniques
    bpath.uniquetrees = uniquetrees
    import sys
    h = sys.modules.get('vpx.harness.c12')
    if h is not None:
        h.uniquetrees = uniquetrees


def _make_writer_regex(which, pattern):
    from bfg9000.backends.make import syntax as ms
    setattr(ms.Writer, '_Writer__' + which, re.compile(pattern))


@mutant('make_target_no_colon')
def _m25():
    # ':' dropped from the target escape table
    _make_writer_regex('target_ex', r'(\\*)(^~|[%?*\[\s#])')


@mutant('make_dep_no_pipe')
def _m26():
    # '|' dropped from the dependency escape table
    _make_writer_regex('dep_ex', r'(\\*)(^~|[?*\[\s#:])')


@mutant('make_qvar_unquoted')
def _m27():
    # quoted automatic variables ('$@') lose their quotes
    from bfg9000.backends.make import syntax as ms
    from bfg9000 import safe_str

    def use(self):
        fmt = '${}' if len(self.name) == 1 else '$({})'
        return safe_str.literal(fmt.format(self.name))
    ms.Variable.use = use


def _glob_variant(old, new):
    from bfg9000 import glob as g
    src = open(g.__file__).read()
    assert old in src, old
    src = src.replace(old, new)
    ns = {'__name__': 'bfg9000.glob', '__package__': 'bfg9000'}
    exec(compile(src, g.__file__, 'exec'), ns)
    for name in ('_compile_glob', '_match_base', '_match_glob_run', '_match_glob_runs', 'match'):
        setattr(g.PathGlob, name, ns['PathGlob'].__dict__[name])
    for fn in ns['PathGlob'].__dict__.values():
        f = getattr(fn, '__func__', fn)
        if hasattr(f, '__globals__'):
            pass
    # the re-executed class bodies refer to their own Result/Type enums: rebind to the live ones
    for name in ('match', '_match_base', '_match_glob_run', '_match_glob_runs'):
        f = g.PathGlob.__dict__[name]
        f = getattr(f, '__func__', f)
        f.__globals__['PathGlob'] = g.PathGlob
    ns['PathGlob'].Result = g.PathGlob.Result
    ns['PathGlob'].Type = g.PathGlob.Type


@mutant('glob_never_too_early')
def _m28():
    # `never` also for later runs: prunes directories whose descendants could still match
    _glob_variant("result = self.Result.never if first else self.Result.no",
                  "result = self.Result.never")


@mutant('glob_wiggle_off_by_one')
def _m29():
    _glob_variant("for offset in range(wiggle_room + 1):", "for offset in range(wiggle_room):")


@mutant('glob_starstar_needs_one')
def _m30():
    # '**' no longer matches zero components at the end
    _glob_variant("end_bits = path_bits[len(path_bits) - len(runs[0].matchers):]",
                  "end_bits = path_bits[max(1, len(path_bits) - len(runs[0].matchers)):]")


@mutant('filter_exclude_not_recursive')
def _m31():
    # an excluded directory no longer takes its children with it
    from bfg9000.builtins import find as bfind
    orig = bfind.FileFilter._match_globs

    def _match_globs(self, path):
        r = orig(self, path)
        if r == bfind.FindResult.exclude_recursive and any(i.match(path) for i in self.exclude):
            return bfind.FindResult.exclude
        return r
    bfind.FileFilter._match_globs = _match_globs


@mutant('find_cache_drops_last')
def _m32():
    # the cache stores all results but the last one
    from bfg9000.builtins import find as bfind
    orig = bfind.FindCache.add

    def add(self, file_filter, found, extra):
        orig(self, file_filter, found[:-1] if len(found) > 1 else found, extra)
    bfind.FindCache.add = add


@mutant('make_dep_no_bracket')
def _m33():
    # '[' dropped from the escape tables
    _make_writer_regex('dep_ex', r'(\\*)(^~|[|?*\s#:])')
    _make_writer_regex('target_ex', r'(\\*)(^~|[%?*\s#:])')


@mutant('make_include_double_escape')
def _m34():
    # include() stores the already-escaped name, write() escapes it again
    from bfg9000.backends.make import syntax as ms
    orig = ms.Makefile.include

    def include(self, name, optional=False):
        orig(self, self._target_str(name), optional)
    ms.Makefile.include = include


def _patch_source(owner, name, old, new, mangle=False):
    """re-compile one function/method of the live code with a textual change (the mutant lives in
    the worker process only)"""
    import inspect
    import textwrap
    fn = owner.__dict__[name]
    kind = None
    if isinstance(fn, (classmethod, staticmethod)):
        kind = type(fn)
        fn = fn.__func__
    src = textwrap.dedent(inspect.getsource(fn))
    assert old in src, (name, old)
    src = src.replace(old, new)
    if mangle:
        # private names (self.__x) are mangled at class-compile time; do it by hand
        src = re.sub(r'\b(self|cls)\.__(?!\w*__\b)(\w+)',
                     lambda m: '%s._%s__%s' % (m.group(1), owner.__name__.lstrip('_'), m.group(2)), src)
    if src.lstrip().startswith('@'):
        src = src[src.index('def '):]
    glb = fn.__globals__
    ns = {}
    # methods using name-mangled attributes or zero-argument super() need their class cell
    # keep the original line numbers so that inspect.getsource keeps working on the result
    src = '\n' * (fn.__code__.co_firstlineno - 1 + (0 if src.startswith('def ') else 0)) + src
    code = compile(src, inspect.getsourcefile(fn), 'exec')
    exec(code, glb, ns)
    new_fn = ns[fn.__name__]
    if kind:
        new_fn = kind(new_fn)
    setattr(owner, name, new_fn)


@mutant('link_libs_keep_first')
def _m35():
    # the forwarding order as it was before the fix (keep the first occurrence)
    from bfg9000.builtins import link as blink
    src_old = '''self.libs = list(reversed(uniques(reversed(
            self.user_libs + forward_opts.libs
        ))))'''
    import inspect
    import textwrap
    src = textwrap.dedent(inspect.getsource(blink.Link.__init__))
    start = src.index('self.libs = list(reversed(')
    end = src.index('))))', start) + 4
    src = src[:start] + 'self.libs = self.user_libs + forward_opts.libs' + src[end:]
    src = src.replace('self.__name(', 'self._Link__name(').replace('self.__find_linker(',
                                                                   'self._Link__find_linker(')
    src = src.replace('super().__init__(', 'super(blink.Link, self).__init__(')
    glb = dict(blink.Link.__init__.__globals__)
    glb['blink'] = blink
    ns = {}
    exec(compile(src, blink.__file__, 'exec'), glb, ns)
    blink.Link.__init__ = ns['__init__']


@mutant('forward_recurse_shallow')
def _m36():
    # requirements of static libraries are forwarded one level only
    from bfg9000 import options as opts

    def recurse(cls, libs):
        result = cls()
        for i in libs:
            f = getattr(i, 'forward_opts', None)
            if f:
                result.update(f)
        return result
    opts.ForwardOptions.recurse = classmethod(recurse)


@mutant('rpath_absolute')
def _m37():
    # $ORIGIN prefix dropped: the run-time path is relative to the cwd, not to the binary
    from bfg9000.tools import patchelf
    from bfg9000.path import Root, InstallRoot

    def local_rpath(env, library, output):
        if not library.runtime_file:
            return None
        rpath = library.runtime_file.path.parent().cross(env)
        if rpath.root != Root.absolute and rpath.root not in InstallRoot:
            if rpath.root == output.path.root:
                rpath = rpath.relpath(output.path.parent(), prefix='')
        return rpath
    patchelf.local_rpath = local_rpath


@mutant('envvar_pop_unrecorded')
def _m38():
    from bfg9000.environment import EnvVarDict

    def pop(self, key, *args, **kwargs):
        return dict.pop(self, key, *args, **kwargs)
    EnvVarDict.pop = pop


@mutant('envvar_reset_keeps_changes')
def _m39():
    from bfg9000.environment import EnvVarDict

    def reset(self):
        dict.clear(self)
        dict.update(self, self.initial)
    EnvVarDict.reset = reset


@mutant('envvar_lazy_changes_no_removed')
def _m40():
    # after from_json the recomputed changes forget variables that were removed
    from bfg9000.environment import EnvVarDict

    def changes(self):
        if not hasattr(self, '_changes'):
            self._changes = {}
            for k, v in self.items():
                if k not in self.initial or self.initial[k] != v:
                    self._changes[k] = v
        return self._changes
    EnvVarDict.changes = property(changes)


@mutant('env_version_gate_off_by_one')
def _m41():
    from bfg9000 import environment as benv
    _patch_source(benv.Environment, 'load', 'if version > cls.version:',
                  'if version > cls.version + 1:')


@mutant('regen_ignores_extra')
def _m42():
    from bfg9000.builtins import find as bfind
    _patch_source(bfind, 'find_check_cache',
                  'regenerate = regenerate or results[0] != found or results[1] != extra',
                  'regenerate = regenerate or results[0] != found')


@mutant('regen_min_of_inputs')
def _m43():
    from bfg9000.builtins import find as bfind
    _patch_source(bfind, 'find_check_cache', 'if ( max(_path.getmtime_ns(',
                  'if ( min(_path.getmtime_ns(')


@mutant('regen_no_touch_missing_check')
def _m44():
    from bfg9000.builtins import find as bfind
    _patch_source(bfind, 'find_check_cache', 'if _path.exists(i, context.env.base_dirs):',
                  'if True:')


@mutant('glob_json_drops_type')
def _m45():
    from bfg9000 import glob as g

    def from_json(cls, data):
        from bfg9000.path import Path
        return cls(Path.from_json(data['pattern']))
    g.PathGlob.from_json = classmethod(from_json)


@mutant('relpath_ignores_submodule')
def _m46():
    from bfg9000.builtins import path as bp
    from bfg9000 import path as _path

    def relpath(context, path, strict=False):
        return _path.Path.ensure(path, _path.Root.srcdir, strict=strict)
    bp.relpath = relpath


@mutant('buildpath_not_rerooted')
def _m47():
    from bfg9000.builtins import path as bp
    from bfg9000 import path as _path

    def buildpath(context, path, strict=False):
        return _path.Path.ensure(path, context.path.parent(), strict=strict)
    bp.buildpath = buildpath


@mutant('exports_shared_dict')
def _m48():
    # every nested script writes into the exports of the first submodule frame
    from bfg9000.builtins import builtin as bb

    def exports(self):
        if len(self.path_stack) == 1:
            raise ValueError('exports are not allowed on root-level bfg scripts')
        return self.path_stack[1].exports
    bb.StackContext.exports = property(exports)


@mutant('toggle_prefix_unanchored')
def _m49():
    from bfg9000.arguments import parser as ap
    import re as _re

    def _prefix(s, prefix):
        if not s.startswith('--'):
            raise ValueError('option string must begin with "--"')
        return _re.sub('(--(x-)?)', r'\1' + prefix, s)
    ap.ToggleAction._prefix = staticmethod(_prefix)


@mutant('user_arg_no_x_alias')
def _m50():
    from bfg9000.arguments import parser as ap

    def add_user_argument(parser, *names, **kwargs):
        if any(not i.startswith('--') for i in names):
            raise ValueError('option string must begin with "--"')
        if any(i.startswith('--x-') for i in names):
            raise ValueError('"x-" prefix is reserved')
        return parser.add_argument(*names, **kwargs)
    ap.add_user_argument = add_user_argument


@mutant('glob_starstar_flag_sticky')
def _m51():
    # the "previous token was **" flag is only reset by literal components
    _glob_variant("""            starstar = False
            if cls._is_glob(i):
                globs[-1].append(re.compile(fnmatch.translate(i)).match)
            else:
                assert i""", """            if cls._is_glob(i):
                globs[-1].append(re.compile(fnmatch.translate(i)).match)
            else:
                starstar = False
                assert i""")


@mutant('regen_saved_inputs_bootstrap_only')
def _m52():
    from bfg9000.builtins import regenerate as rg

    def make(cls, build_inputs, env):
        return rg.RegenerateFiles(build_inputs.bootstrap_paths, rg._outputs(build_inputs, env))
    rg.RegenerateFiles.make = classmethod(make)


@mutant('regen_replay_drops_find_dirs')
def _m53():
    from bfg9000.builtins import find as bfind
    _patch_source(bfind, 'find_check_cache', "context.build['find_dirs'].update(seen_dirs)", 'pass')


@mutant('toolchain_lazy_no_reload')
def _m54():
    from bfg9000 import build as bbuild
    _patch_source(bbuild, 'load_toolchain', 'if regenerating:\n        env.reload()\n    else:',
                  'if regenerating is Regenerating.true:\n        env.reload()\n    elif not regenerating:')


@mutant('installify_ignores_directory')
def _m55():
    from bfg9000.builtins import install as bi
    orig = bi.installify

    def installify(file, *, directory=None, cross=None):
        return orig(file, directory=None, cross=cross)
    bi.installify = installify


@mutant('install_no_destdir')
def _m56():
    from bfg9000.builtins import install as bi
    _patch_source(bi, 'installify', 'destdir=not cross', 'destdir=False')


@mutant('uninstall_wrong_root')
def _m57():
    # uninstall removes the *build* path instead of the installed one
    from bfg9000.builtins import install as bi
    _patch_source(bi, '_uninstall_files', 'return [dst.path]', 'return [src.path]')


@mutant('install_deps_shallow')
def _m58():
    from bfg9000.builtins import install as bi
    _patch_source(bi.InstallOutputs, '_add_implicit',
                  'self._add_implicit(dep, directory)',
                  'self.host.setdefault(dep, installify(dep, directory=directory)); '
                  'self.target.setdefault(dep, installify(dep, directory=directory, cross=self.env))')


@mutant('compdb_drops_target_options')
def _m59():
    from bfg9000.builtins import compile as bc
    old = bc.compdb_compile
    _patch_source(bc, 'compdb_compile', "compiler.flags(gopts, mode='global') +\n                               rule.flags(gopts))",
                  "compiler.flags(gopts, mode='global'))")
    from bfg9000.backends.compdb import writer as cw
    for k, v in list(cw._rule_handlers.items()):
        if v is old:
            cw._rule_handlers[k] = bc.compdb_compile


def _swap_handler(registry_owner, old, new):
    """rule handlers are registered in dictionaries at import time: replace the entry as well"""
    for attr in ('_handlers', '_BuildRuleHandler__handlers', 'handlers'):
        d = getattr(registry_owner, attr, None)
        if isinstance(d, dict):
            for k, v in list(d.items()):
                if v is old:
                    d[k] = new


@mutant('make_link_drops_extra_deps')
def _m60():
    from bfg9000.builtins import link as bl
    from bfg9000.backends.make import writer as mw
    old = bl.make_link
    _patch_source(bl, 'make_link', 'manifest + rule.extra_deps),', 'manifest),')
    _swap_handler(mw.rule_handler, old, bl.make_link)


@mutant('ninja_link_drops_libs')
def _m61():
    from bfg9000.builtins import link as bl
    from bfg9000.backends.ninja import writer as nw
    old = bl.ninja_link
    import inspect
    src = inspect.getsource(old)
    assert 'rule.libs' in src
    _patch_source(bl, 'ninja_link', 'rule.libs', '[]')
    _swap_handler(nw.rule_handler, old, bl.ninja_link)


@mutant('multitarget_no_stamp_deps')
def _m62():
    # the stamp rule of a multi-output step loses its prerequisites
    from bfg9000.backends.make import writer as mw
    _patch_source(mw, 'multitarget_rule',
                  'buildfile.rule(primary, deps, order_only, recipe, variables, phony)',
                  'buildfile.rule(primary, deps if len(targets) == 1 else None, order_only, recipe, '
                  'variables, phony)')
    from bfg9000.builtins import command as bc, link as bl, compile as bcomp
    for m in (bc, bl, bcomp):
        if hasattr(m, 'make'):
            pass


@mutant('defaults_remove_from_explicit')
def _m63():
    # test(x) also withdraws an explicit default(x)
    from bfg9000.builtins import default as bd

    def remove(self, output, explicit=False):
        for outputs in (self.default_outputs, self.fallback_defaults):
            for i, v in enumerate(list(outputs)):
                if output is v:
                    outputs.remove(v)
    bd.DefaultOutputs.remove = remove


@mutant('all_rule_uses_fallback')
def _m64():
    from bfg9000.builtins import default as bd
    _patch_source(bd, 'make_all_rule', "deps=build_inputs['defaults'].outputs",
                  "deps=build_inputs['defaults'].fallback_defaults")


@mutant('abspath_ignores_cwd_for_dot')
def _m65():
    # './x' is resolved against '/' instead of the current directory
    from bfg9000.platforms import basepath as bp
    orig = bp.BasePath.abspath.__func__

    def abspath(cls, path, directory=None, absdrive=True):
        if path.startswith('./'):
            return cls('/' + path[2:], bp.Root.absolute, directory=directory)
        return orig(cls, path, directory, absdrive)
    bp.BasePath.abspath = classmethod(abspath)


@mutant('depfile_first_dir_only_as_target')
def _m66():
    # makeify: only the first directory (in iteration order) gets its own rule
    from bfg9000.builtins import find as bfind
    _patch_source(bfind, 'write_depfile', '            for i in seen_dirs:\n                out.write(i.string(roots), Syntax.target)',
                  '            for i in list(seen_dirs)[:1]:\n                out.write(i.string(roots), Syntax.target)')


@mutant('pc_no_hash_escape')
def _m67():
    # the .pc writer as it was before the fix: '#' written raw
    from bfg9000.builtins import pkg_config as pc
    from bfg9000.iterutils import iterate

    def _write_value(out, value, syntax, **kwargs):
        out.write_each(iterate(value), syntax, **kwargs)
    pc.PkgConfigWriter._write_value = staticmethod(_write_value)


@mutant('install_deps_via_set')
def _m68():
    from bfg9000.builtins import install as bi
    from vpx import advset

    def edit(src):
        assert 'for dep in src.install_deps:' in src
        return src.replace('for dep in src.install_deps:', 'for dep in set(src.install_deps):')
    advset.rewrite(bi.InstallOutputs, '_add_implicit', edit)


@mutant('directory_deps_via_set')
def _m69():
    from bfg9000.backends.make import writer as mw
    from vpx import advset

    def edit(src):
        old = 'dirs = uniques(_get_path(i).parent() for i in targets)'
        assert old in src
        return src.replace(old, 'dirs = {_get_path(i).parent() for i in targets}')
    advset.rewrite(mw, 'directory_deps', edit)


@mutant('ldlibs_uses_global_ldflags')
def _m70():
    from bfg9000.builtins import link as bl
    _patch_source(bl, '_get_flags', 'variables[ldlibs] = [global_ldlibs] + lib_flags',
                  'variables[ldlibs] = [global_ldflags] + lib_flags')


@mutant('autofill_overrides_empty')
def _m71():
    from bfg9000.builtins import pkg_config as pc
    _patch_source(pc, 'finalize_pkg_config', 'if getattr(info, key) is None:',
                  'if not getattr(info, key):')


@mutant('msbuild_default_moves_all')
def _m72():
    from bfg9000.builtins import default as bd
    _patch_source(bd, 'msbuild_default', 'solution.set_default(defaults.default_outputs[0])',
                  'for i in reversed(defaults.default_outputs):\n                solution.set_default(i)')


@mutant('path_hash_includes_directory')
def _m73():
    from bfg9000.platforms import basepath as bp

    def __hash__(self):
        return hash((self.root, self.suffix, self.destdir, self.directory))
    bp.BasePath.__hash__ = __hash__


@mutant('dir_rule_subst')
def _m74():
    from bfg9000.backends.make import writer as mw
    _patch_source(mw, 'directory_rule', "Function('patsubst', pattern, Pattern('%'), var('@'), quoted=True)",
                  "Function('subst', '/.dir', '', var('@'), quoted=True)")


@mutant('depfile_target_escape_for_prereq')
def _m75():
    from bfg9000.builtins import find as bfind
    _patch_source(bfind, 'write_depfile', 'out.write(i.string(roots), Syntax.dependency)',
                  'out.write(i.string(roots), Syntax.target)')


@mutant('ninja_srcdir_after_flags')
def _m76():
    # srcdir is defined in the default section: after the flags that refer to it
    from bfg9000.backends.ninja import writer as nw
    _patch_source(nw, 'write', "buildfile.variable(buildfile.path_vars[path.Root.srcdir], env.srcdir,\n                       Section.path)",
                  "buildfile.variable(buildfile.path_vars[path.Root.srcdir], env.srcdir)")


@mutant('make_function_no_comma_escape')
def _m77():
    # function syntax no longer doubles '$' (so a name with '$' is expanded inside $(call ...))
    from bfg9000.backends.make import syntax
    orig = syntax.Writer.escape_str.__func__

    def escape_str(cls, string, syn):
        if syn == syntax.Syntax.function:
            return string.replace(',', '$,')
        return orig(cls, string, syn)
    syntax.Writer.escape_str = classmethod(escape_str)


@mutant('win_split_quote_ends_arg')
def _m78():
    from bfg9000.shell import windows as w
    _patch_source(w, 'split', """            if tok == _Token.quote:
                state = _State.word
            else:
                args[-1] += value""", """            if tok == _Token.quote:
                state = _State.between
            else:
                args[-1] += value""")


@mutant('sh_jbos_escaped_last_only')
def _m79():
    # shell/syntax.py Writer.write: only the last piece of a joined string decides about quoting
    from bfg9000.shell import syntax as shsyntax
    _patch_source(shsyntax.Writer, 'write', "escaped |= self.write(i, syntax, shell_quote)",
                  "escaped = self.write(i, syntax, shell_quote)")


@mutant('make_flags_vars_global')
def _m80():
    # make/writer.py flags_vars: plain global `CFLAGS := $(GLOBAL_CFLAGS)` instead of the
    # pattern-specific `%: CFLAGS := ...` that stops inheritance from dependants
    from bfg9000.backends.make import writer
    _patch_source(writer, 'flags_vars', "flags = buildfile.target_variable(name, gflags, True)",
                  "flags = buildfile.variable(name, gflags, Section.other, True)")


@mutant('ninja_copy_input_per_step')
def _m81():
    # copy_file.ninja_copy_file: the input variable is chosen per step, but the rule is shared
    from bfg9000.builtins import copy_file as cf
    from bfg9000.backends.ninja import writer as nw
    old = cf.ninja_copy_file
    _patch_source(cf, 'ninja_copy_file', """        input_var = ninja.var('input')
        variables[input_var] = copier.transform_input(
            rule.file, rule.raw_output
        )
    else:
        input_var = ninja.var('in')""", """        input_var = ninja.var('in')
        _inp = copier.transform_input(rule.file, rule.raw_output)
        if _inp != rule.file.path:
            input_var = ninja.var('input')
            variables[input_var] = _inp
    else:
        input_var = ninja.var('in')
""")
    _swap_handler(nw.rule_handler, old, cf.ninja_copy_file)


@mutant('env_upgrade_v8_merged_into_v9')
def _m82():
    # Environment.load: the v8 step (extra_args) runs under `version < 9`
    from bfg9000 import environment as benv
    _patch_source(benv.Environment, 'load', "    if version < 8:\n        data['extra_args'] = []",
                  "    if version < 9:\n        data['extra_args'] = []")


@mutant('push_path_no_finally')
def _m83():
    # StackContext.push_path: the pop no longer runs when the script body raises
    from bfg9000.builtins import builtin as bb
    import contextlib

    @contextlib.contextmanager
    def push_path(self, path):
        self.seen_paths.append(path)
        self.path_stack.append(self.PathEntry(path))
        yield self.path_stack[-1]
        self.path_stack.pop()
    bb.StackContext.push_path = push_path


@mutant('fill_options_dedup_forwarded')
def _m84():
    # DynamicLink._fill_options: forwarded link options already present are skipped
    from bfg9000.builtins import link as bl
    _patch_source(bl.DynamicLink, '_fill_options', """    self._internal_options.collect(extra_options,
                                   forward_opts.link_options)""", """    self._internal_options.collect(extra_options)
    self._internal_options.extend(
        i for i in forward_opts.link_options
        if i not in self._internal_options
    )""")


@mutant('requirement_split_hash_order')
def _m85():
    # Requirement.split as it was before the fix: iterate the specifier set directly
    from bfg9000.builtins import pkg_config as bpc
    from vpx import advset

    def edit(src):
        assert 'for i in sorted(specs, key=str)]' in src
        return src.replace('for i in sorted(specs, key=str)]', 'for i in specs]')
    advset.rewrite(bpc.Requirement, 'split', edit)


@mutant('pc_forwarded_libs_through_set')
def _m86():
    # PkgConfigInfo.finalize collects the forwarded private libraries through a set
    from bfg9000.builtins import pkg_config as bpc
    from vpx import advset

    def edit(src):
        assert '(i for i in fwd.libs if i not in libs)' in src
        return src.replace('(i for i in fwd.libs if i not in libs)', 'set(fwd.libs) - set(libs)')
    advset.rewrite(bpc.PkgConfigInfo, 'finalize', edit)


@mutant('check_cache_replays_when_inputs_newer')
def _m87():
    # find_check_cache: no early return when an explicit input is newer -- the old cached filters
    # are replayed and pre-filled into the state of the regeneration that follows
    from bfg9000.builtins import find as bf
    _patch_source(bf, 'find_check_cache', """             for i in regen_files.outputs) ):
        return

    # Otherwise, check to see if any of the `find_files` calls have different
    # results. If not, we can avoid regenerating.
    regenerate = False
""", """             for i in regen_files.outputs) ):
        _forced = True
    else:
        _forced = False
    # Otherwise, check to see if any of the `find_files` calls have different
    # results. If not, we can avoid regenerating.
    regenerate = _forced
""")


@mutant('patchelf_changed_assigned')
def _m88():
    # patchelf.post_install: `changed` is assigned, not only set, by an rpath_dir option
    from bfg9000.tools import patchelf as pe
    _patch_source(pe, 'post_install', """            if i.when != opts.RpathWhen.always:
                changed = True""", """            changed = i.when != opts.RpathWhen.always
""")


@mutant('uninstall_dir_flattened')
def _m89():
    # install._uninstall_files: a directory's files are taken from the (flattened) installed clone
    from bfg9000.builtins import install as bi
    _patch_source(bi, '_uninstall_files', """            return [dst.path.append(i.path.relpath(src.path)) for i in
                    iterate(src.files)]""", """            return [i.path for i in iterate(dst.files)]
""")


@mutant('toolchain_install_dirs_lazy')
def _m90():
    # toolchain.install_dirs: only an explicit regeneration skips the assignment
    from bfg9000.builtins import toolchain as bt
    from bfg9000.build_inputs import Regenerating
    bt.Regenerating = Regenerating
    _patch_source(bt, 'install_dirs', "if context.regenerating:",
                  "if context.regenerating == Regenerating.true:")


@mutant('driver_test_stays_default')
def _m91():
    # Test.__init__: a test handed to a driver is no longer withdrawn from the default set
    from bfg9000.builtins import tests as bt
    _patch_source(bt.Test, '__init__', """    primary = first(cmd)
    if isinstance(primary, Node) and primary.creator:
        context.build['defaults'].remove(primary)""", """    primary = first(cmd)
    if isinstance(primary, Node) and primary.creator and not driver:
        context.build['defaults'].remove(primary)""")


@mutant('multitarget_phony_on_alias')
def _m92():
    # make multitarget_rule: phony goes to the recipe-less alias rule of a multi-output step
    from bfg9000.backends.make import writer as mw
    _patch_source(mw, 'multitarget_rule', """        buildfile.rule(target=targets, deps=[primary])
        recipe = listify(recipe) + [Silent([ 'touch', qvar('@') ])]""", """        buildfile.rule(target=targets, deps=[primary], phony=phony)
        recipe = listify(recipe) + [Silent([ 'touch', qvar('@') ])]
        phony = None""")


@mutant('install_paths_in_mapping_order')
def _m93():
    # install._add_install_paths iterates the environment's mapping instead of the InstallRoot enum
    from bfg9000.builtins import install as bi
    _patch_source(bi, '_add_install_paths', """    for i in path.InstallRoot:
        buildfile.variable(buildfile.path_vars[i], env.install_dirs[i],
                           buildfile.Section.path)""", """    for i, _d in env.install_dirs.items():
        buildfile.variable(buildfile.path_vars[i], _d,
                           buildfile.Section.path)""")


@mutant('walk_skips_symlinked_root')
def _m94():
    # path.walk: the "do not follow symlinked directories" test moved to the top of the function
    from bfg9000 import path as bp
    _patch_source(bp, 'walk', """    if not exists(top, variables):
        return
    dirs, nondirs = listdir(top, variables)
    yield top, dirs, nondirs
    for d in dirs:
        if not islink(d, variables):
            for i in walk(d, variables):
                yield i""", """    if not exists(top, variables) or islink(top, variables):
        return
    dirs, nondirs = listdir(top, variables)
    yield top, dirs, nondirs
    for d in dirs:
        if True:
            for i in walk(d, variables):
                yield i""")


@mutant('make_target_var_line_reescaped')
def _m95():
    # Makefile._write_variable: the '#' escaping runs over the whole `target: NAME := value` line
    from bfg9000.backends.make import syntax as ms
    _patch_source(ms.Makefile, '_write_variable', """    if target:
        out.write(target, Syntax.target)
        out.write_literal(': ')
    out.write_literal(name.name + ' := ')
""", """    _real_out = out
    out = Writer(StringIO(), _real_out.path_vars)
    if target:
        out.write(target, Syntax.target)
        out.write_literal(': ')
    _real_out.write_literal(re.sub(r'(\\\\*)#', lambda m: m.group(1) * 2 + '\\\\#',
                                   out.stream.getvalue()))
    out = _real_out
    out.write_literal(name.name + ' := ')
""")


@mutant('env_upgrade_initial_or_current')
def _m96():
    # Environment.load: v13 leaves initial_variables unset and v15 falls back with `or`
    from bfg9000 import environment as benv
    _patch_source(benv.Environment, 'load', "            'initial': data.pop('initial_variables'),",
                  "            'initial': data.pop('initial_variables') or data['variables'],")


@mutant('string_appends_suffix')
def _m97():
    # BasePath.string: suffixes of nested roots are appended instead of prepended
    from bfg9000.platforms import basepath as bb
    _patch_source(bb.BasePath, 'string', "result = suffix + result", "result += suffix")


@mutant('static_forwards_static_only')
def _m98():
    # StaticLink._fill_output forwards only static libraries
    from bfg9000.builtins import link as bl
    _patch_source(bl.StaticLink, '_fill_output', "libs=self.user_libs,",
                  "libs=[i for i in self.user_libs if isinstance(i, StaticLibrary)],")


@mutant('path_escape_check_basename_only')
def _m99():
    # BasePath.__init__: only a *trailing* '..' counts as leaving the root
    from bfg9000.platforms import basepath as bb
    _patch_source(bb.BasePath, '__init__', """    if ( normpath == posixpath.pardir or
         normpath.startswith(posixpath.pardir + posixpath.sep) ):""",
                  """    if ( posixpath.basename(normpath) == posixpath.pardir and
         True ):""", mangle=True)

"""Engine self-test: CrossHair's symbolic regex matcher (with vpx/chplugin.py) against CPython's re
on every string up to a small length over each regex's own interesting alphabet.  Any difference
is a harness error (the engine is part of the trusted base and was found wrong once)."""
import itertools
import json
import sys


def run(specs, maxlen=3):
    import vpx.chplugin  # noqa: F401
    from crosshair.core_and_libs import standalone_statespace, NoTracing, ResumedTracing
    from crosshair.libimpl.builtinslib import LazyIntSymbolicStr
    n = 0
    diffs = []
    for name, ex, repl, alphabet in specs:
        for k in range(0, maxlen + 1):
            for t in itertools.product(alphabet, repeat=k):
                s = ''.join(t)
                want_sub = ex.sub(repl, s) if repl is not None else None
                want_it = [(m.start(), m.end()) for m in ex.finditer(s)]
                want_search = ex.search(s) is not None
                with standalone_statespace, NoTracing():
                    sym = LazyIntSymbolicStr(list(map(ord, s)))
                    with ResumedTracing():
                        got_sub = ex.sub(repl, sym) if repl is not None else None
                        got_it = [(int(m.start()), int(m.end())) for m in ex.finditer(sym)]
                        got_search = ex.search(sym) is not None
                        if got_sub is not None:
                            got_sub = ''.join(chr(ord(c)) for c in got_sub)
                n += 1
                if (got_sub, got_it, got_search) != (want_sub, want_it, want_search):
                    diffs.append({'regex': name, 'input': s, 'symbolic': [got_sub, got_it],
                                  'cpython': [want_sub, want_it]})
    return n, diffs


if __name__ == '__main__':
    import importlib
    prop = importlib.import_module(sys.argv[1])
    n, diffs = run(prop.regex_selftest())
    print('VPXRESULT ' + json.dumps({'n': n, 'diffs': diffs[:20], 'ndiffs': len(diffs)}))

"""Model-vs-tool conformance runs and real-tool replays (sh, make, gcc, pkg-config).

Every scratch directory is created with mkdtemp under $TMPDIR and removed on exit.  A disagreement
between a model and the real tool is a defect of the machinery (exit code 3), never of bfg9000.
"""
import itertools
import os
import shutil
import subprocess
import tempfile
from concurrent.futures import ThreadPoolExecutor

from .models import rsh, rmake

REC_SCRIPT = """#!/bin/sh
for a; do printf '%s\\0' "$a"; done > "$VPX_REC"
printf '%s' "$V" > "$VPX_REC.V"
printf '%s' "$W" > "$VPX_REC.W"
"""


SH_BUILTINS = set(""": . [ alias bg break cd chdir command continue echo eval exec exit export false
fg getopts hash jobs kill local printf pwd read readonly return set shift test times trap true type
ulimit umask unalias unset wait if then else elif fi do done case esac while until for in""".split())


class Scratch:
    def __init__(self):
        self.dir = tempfile.mkdtemp(prefix='vpx-')

    def __enter__(self):
        return self

    def __exit__(self, *a):
        shutil.rmtree(self.dir, ignore_errors=True)

    def path(self, *p):
        return os.path.join(self.dir, *p)

    def write(self, name, text, mode=None):
        p = self.path(name)
        os.makedirs(os.path.dirname(p), exist_ok=True)
        with open(p, 'w', encoding='utf-8', errors='surrogateescape', newline='') as f:
            f.write(text)
        if mode:
            os.chmod(p, mode)
        return p


def strings(alphabet, maxlen, minlen=0):
    for n in range(minlen, maxlen + 1):
        for t in itertools.product(alphabet, repeat=n):
            yield ''.join(t)


def _encodable(s):
    try:
        s.encode('utf-8')
        return True
    except UnicodeEncodeError:
        return False


# ---------------------------------------------------------------------------------- sh

def real_sh(line, workdir, idx=0, cmdword='prog'):
    """Run `line` with real /bin/sh; the command word must resolve to our recorder.
    Returns (env{'V','W'}, argv) or ('error', detail)."""
    if not _encodable(line) or '\0' in line:
        return ('skip', 'unencodable')
    bindir = os.path.join(workdir, 'bin%d' % idx)
    os.makedirs(bindir, exist_ok=True)
    if ('/' in cmdword or cmdword in ('', '.', '..') or cmdword in SH_BUILTINS or
            len(cmdword.encode()) > 200):
        return ('skip', 'command word not installable')
    stub = os.path.join(bindir, cmdword)
    with open(stub, 'w') as f:
        f.write(REC_SCRIPT)
    os.chmod(stub, 0o755)
    rec = os.path.join(workdir, 'rec%d' % idx)
    for suffix in ('', '.V', '.W'):
        try:
            os.remove(rec + suffix)
        except OSError:
            pass
    env = {'PATH': bindir, 'VPX_REC': rec, 'HOME': '/nonexistent-home'}
    for attempt in range(8):
        try:
            r = subprocess.run(['/bin/sh', '-c', 'eval "$1"', 'sh', line], env=env, cwd=workdir,
                               capture_output=True, timeout=20)
        except subprocess.TimeoutExpired:
            return ('error', 'timeout')
        # ETXTBSY: another thread forked while our freshly written stub was still open for writing
        if b'Text file busy' in r.stderr and not os.path.exists(rec):
            import time
            time.sleep(0.05 * (attempt + 1))
            continue
        break
    if not os.path.exists(rec):
        shutil.rmtree(bindir, ignore_errors=True)
        return ('error', 'rc=%d %s' % (r.returncode, r.stderr.decode(errors='replace')[:200]))
    with open(rec, 'rb') as f:
        data = f.read()
    argv = [a.decode('utf-8', 'surrogateescape') for a in data.split(b'\0')[:-1]]
    e = {}
    for k in ('V', 'W'):
        with open(rec + '.' + k, 'rb') as f:
            e[k] = f.read().decode('utf-8', 'surrogateescape')
    shutil.rmtree(bindir, ignore_errors=True)
    return (e, [cmdword] + argv)


def check_rsh(lines, workers=16):
    """For every line the model calls safe: real sh must deliver exactly the model's env/argv.
    Returns (n_agree, n_model_unsafe, disagreements)."""
    agree = unsafe = 0
    bad = []
    with Scratch() as sc:
        def one(t):
            idx, line = t
            m = rsh.run(line)
            if m is None:
                return ('unsafe', line, None, None)
            env, argv = m
            if not argv:
                return ('unsafe', line, None, None)
            real = real_sh(line, sc.dir, idx, argv[0])
            return ('cmp', line, m, real)
        with ThreadPoolExecutor(workers) as ex:
            for kind, line, m, real in ex.map(one, list(enumerate(lines))):
                if kind == 'unsafe' or real[0] == 'skip':
                    unsafe += 1
                    continue
                env, argv = m
                if real[0] == 'error':
                    bad.append((line, m, real))
                    continue
                renv, rargv = real
                want = {'V': env.get('V', ''), 'W': env.get('W', '')}
                if rargv == argv and renv == want:
                    agree += 1
                else:
                    bad.append((line, m, real))
    return agree, unsafe, bad


# ---------------------------------------------------------------------------------- make

MAKE = '/usr/bin/make'


def real_make_values(rhs_list, prelude=''):
    """Values stored by `Vi := rhs` for each rhs, read back with $(info).  One make process per
    case (a parse error must not hide other cases).  Returns list of value or ('error', msg)."""
    out = [None] * len(rhs_list)
    with Scratch() as sc:
        def one(t):
            i, rhs = t
            if not _encodable(rhs):
                return i, ('skip', '')
            mk = sc.write('m%d.mk' % i, prelude + 'V := ' + rhs + '\n$(info [$(V)])\nall: ;\n')
            r = subprocess.run([MAKE, '-s', '-f', mk, 'all'], capture_output=True, cwd=sc.dir,
                               timeout=20)
            os.remove(mk)
            if r.returncode != 0:
                return i, ('error', r.stderr.decode(errors='replace')[:200])
            o = r.stdout.decode('utf-8', 'surrogateescape')
            if not (o.startswith('[') and o.endswith(']\n')):
                return i, ('error', 'unexpected output %r' % o[:100])
            return i, o[1:-2]
        with ThreadPoolExecutor(16) as ex:
            for i, v in ex.map(one, list(enumerate(rhs_list))):
                out[i] = v
    return out


def check_rmake_assign(rhs_list, vars=(), prelude=''):
    agree = skipped = 0
    bad = []
    model = [rmake.assign_value(r, vars) for r in rhs_list]
    idx = [i for i, m in enumerate(model) if m is not None]
    real = real_make_values([rhs_list[i] for i in idx], prelude)
    skipped = len(rhs_list) - len(idx)
    for i, rv in zip(idx, real):
        if isinstance(rv, tuple) and rv[0] == 'skip':
            skipped += 1
        elif rv == model[i]:
            agree += 1
        else:
            bad.append((rhs_list[i], model[i], rv))
    return agree, skipped, bad


RECSH = """#!/bin/sh
printf '%s' "$2" > "$VPX_REC"
"""


def real_make_recipes(lines, prelude=''):
    """The string make hands to $(SHELL) -c for each recipe line (None if the shell was not
    invoked, ('error', msg) if make failed)."""
    out = [None] * len(lines)
    with Scratch() as sc:
        recsh = sc.write('recsh', RECSH, 0o755)

        def one(t):
            i, line = t
            if not _encodable(line):
                return i, ('skip', '')
            mk = sc.write('r%d.mk' % i, prelude + 'SHELL := ' + recsh + '\n, := ,\nall:\n\t' +
                          line + '\n')
            rec = sc.path('rec%d' % i)
            env = dict(os.environ, VPX_REC=rec)
            r = subprocess.run([MAKE, '-s', '-f', mk, 'all'], capture_output=True, cwd=sc.dir,
                               env=env, timeout=20)
            os.remove(mk)
            if r.returncode != 0:
                return i, ('error', r.stderr.decode(errors='replace')[:200])
            if not os.path.exists(rec):
                return i, None
            with open(rec, 'rb') as f:
                v = f.read().decode('utf-8', 'surrogateescape')
            os.remove(rec)
            return i, v
        with ThreadPoolExecutor(16) as ex:
            for i, v in ex.map(one, list(enumerate(lines))):
                out[i] = v
    return out


def check_rmake_recipe(lines, vars=(('\x2c', ','),), prelude=''):
    agree = skipped = 0
    bad = []
    model = [rmake.recipe(r, vars) for r in lines]
    idx = [i for i, m in enumerate(model) if m is not None]
    skipped = len(lines) - len(idx)
    real = real_make_recipes([lines[i] for i in idx], prelude)
    for i, rv in zip(idx, real):
        m = model[i]
        if isinstance(rv, tuple) and rv[0] == 'skip':
            skipped += 1
        elif rv == m or (rv is None and m.strip(' \t') == ''):
            agree += 1
        else:
            bad.append((lines[i], m, rv))
    return agree, skipped, bad


def run_makefile(text, target='all', stubs=('prog',), extra_env=None, files=None):
    """Replay helper: run a complete Makefile with real make + real sh, recorder stubs on PATH.
    Returns dict(rc, stderr, calls=[(env, argv), ...] in order)."""
    with Scratch() as sc:
        bindir = sc.path('bin')
        os.makedirs(bindir)
        log = sc.path('log')
        script = ("#!/bin/sh\nd=$(/usr/bin/mktemp -d \"$VPX_LOG.XXXXXXXX\")\n"
                  "{ printf '%s\\0' \"$0\"; for a; do printf '%s\\0' \"$a\"; done; } > \"$d/args\"\n"
                  "printf '%s' \"$V\" > \"$d/V\"\nprintf '%s' \"$W\" > \"$d/W\"\n")
        for s in stubs:
            if '/' in s or s in ('', '.', '..'):
                continue
            p = os.path.join(bindir, s)
            with open(p, 'w') as f:
                f.write(script)
            os.chmod(p, 0o755)
        for name, content in (files or {}).items():
            sc.write(name, content)
        mk = sc.write('Makefile', text)
        env = {'PATH': bindir + ':/usr/bin:/bin', 'VPX_LOG': log, 'HOME': '/nonexistent-home'}
        env.update(extra_env or {})
        r = subprocess.run([MAKE, '-s', '-f', mk, target], capture_output=True, cwd=sc.dir,
                           env=env, timeout=60)
        calls = []
        recs = [os.path.join(sc.dir, d) for d in os.listdir(sc.dir) if d.startswith('log.')]
        recs.sort(key=lambda d: os.stat(os.path.join(d, 'args')).st_mtime_ns)
        for d in recs:
            def rd(n):
                with open(os.path.join(d, n), 'rb') as f:
                    return f.read()
            argv = [a.decode('utf-8', 'surrogateescape') for a in rd('args').split(b'\0')[:-1]]
            argv[0] = os.path.basename(argv[0])
            calls.append(({'V': rd('V').decode('utf-8', 'surrogateescape'),
                           'W': rd('W').decode('utf-8', 'surrogateescape')}, argv))
        return {'rc': r.returncode, 'stderr': r.stderr.decode(errors='replace')[-400:],
                'calls': calls}


# ------------------------------------------------------------------ make: names in rule lines

def _parse_db(out):
    """file entries of `make -p`: {name: prerequisite-text or None}"""
    files = {}
    sec = False
    prev_comment = ''
    for line in out.split('\n'):
        if line.startswith('# Files'):
            sec = True
            continue
        if line.startswith('# files hash-table stats') or line.startswith('# VPATH'):
            sec = False
        if sec and line.endswith(': VPXMARK'):
            files[line[:-len(': VPXMARK')]] = 'VPXMARK'
            continue
        if sec and line.startswith('# ') and line.endswith(':') and line != '# Not a target:':
            files[line[:-1]] = None      # a file whose name starts with '# '
            continue
        if not sec or not line or line[0] == '\t' or line.startswith('# ') or line == '#':
            continue
        k = line.rfind(':')
        if line.endswith(':'):
            files[line[:-1]] = None
        else:
            k = line.find(': ')
            if k >= 0:
                files[line[:k]] = line[k + 2:]
    return files


def real_make_rule_names(word, position, decoys=(), prelude=''):
    """Names GNU Make derives from `word` written in a rule line.

    position 'target':   `<word>: VPXMARK`      -> list of targets of that rule
    position 'prereq':   `VPXT: <word>`         -> list of prerequisites
    position 'order':    `VPXT: | <word>`       -> list of order-only prerequisites
    Returns sorted list of names, or ('error', msg)."""
    if not _encodable(word):
        return ('skip', '')
    with Scratch() as sc:
        for d in decoys:
            sc.write(os.path.join('d', d), '')
        os.makedirs(sc.path('d'), exist_ok=True)
        if position == 'target':
            text = word + ': VPXMARK\n'
        elif position == 'prereq':
            text = 'VPXT: ' + word + '\n'
        else:
            text = 'VPXT: | ' + word + '\n'
        mk = sc.write('mk', prelude + text)
        r = subprocess.run([MAKE, '-rR', '-pn', '-f', mk, '-C', sc.path('d')],
                           capture_output=True, timeout=30, env={'PATH': '/usr/bin:/bin',
                                                                 'HOME': '/nonexistent-home',
                                                                 'LC_ALL': 'C.UTF-8'})
        out = r.stdout.decode('utf-8', 'surrogateescape')
        err = r.stderr.decode('utf-8', 'replace')
        if '***' in err and 'No rule to make' not in err:
            return ('error', err.strip()[:150])
        files = _parse_db(out)
        names = []
        for k, v in files.items():
            if k in (mk, '.DEFAULT', '.SUFFIXES', 'VPXMARK'):
                continue
            if position == 'target':
                if v == 'VPXMARK':
                    names.append(k)
            else:
                if k != 'VPXT':
                    names.append(k)
        return sorted(names)


def check_rmake_rule_words(words, position, workers=16):
    """model vs real make for `aa <word> zz` in a target / prerequisite list"""
    agree = declined = 0
    bad = []

    def one(w):
        m = rmake.rule_words('aa ' + w + ' zz', position)
        if m is None or len(set(m)) != len(m):
            return w, None, None
        r = real_make_rule_names('aa ' + w + ' zz', position)
        return w, sorted(set(m)), (sorted(set(r)) if isinstance(r, list) else r)
    with ThreadPoolExecutor(workers) as ex:
        for w, m, real in ex.map(one, words):
            if m is None or (isinstance(real, tuple) and real[0] == 'skip'):
                declined += 1
            elif real == m:
                agree += 1
            else:
                bad.append((w, m, real))
    return agree, declined, bad


def real_make_includes(word, candidates):
    """which of the candidate file names does `-include <word>` read?  (each candidate file
    contains $(info INC:<index>))"""
    if not _encodable(word):
        return ('skip', '')
    with Scratch() as sc:
        d = sc.path('d')
        os.makedirs(d)
        made = []
        for k, c in enumerate(candidates):
            if '/' in c or c in ('', '.', '..') or '\0' in c:
                continue
            try:
                with open(os.path.join(d, c), 'w') as f:
                    f.write('$(info INC:%d)\n' % k)
                made.append(k)
            except OSError:
                pass
        mk = sc.write('mk', '-include ' + word + '\nall: ;\n')
        r = subprocess.run([MAKE, '-rR', '-s', '-f', mk, '-C', d], capture_output=True, timeout=30,
                           env={'PATH': '/usr/bin:/bin', 'HOME': '/nonexistent-home'})
        if r.returncode != 0:
            return ('error', r.stderr.decode(errors='replace')[:150])
        got = []
        for line in r.stdout.decode(errors='replace').split('\n'):
            if line.startswith('INC:'):
                got.append(candidates[int(line[4:])])
        return sorted(got)


def check_rmake_include(words, workers=16):
    """model says `-include <word>` reads exactly file n (which exists) -> real make reads it"""
    agree = declined = 0
    bad = []

    def one(w):
        # candidate names: the model's answer when the literal un-backslashed name exists
        lit = w.replace('\\', '').replace('$$', '$')
        m = rmake.include_words(w, (), [lit])
        if m is None or len(m) != 1 or '/' in m[0]:
            return w, None, None
        cands = sorted({lit, m[0]})
        return w, [m[0]], real_make_includes(w, cands)
    with ThreadPoolExecutor(workers) as ex:
        for w, m, real in ex.map(one, words):
            if m is None or (isinstance(real, tuple) and real[0] == 'skip'):
                declined += 1
            elif real == m:
                agree += 1
            else:
                bad.append((w, m, real))
    return agree, declined, bad


def check_rmake_rule_words_existing(words, position, workers=16):
    """as check_rmake_rule_words, with the literal (un-backslashed) name present as a file"""
    agree = declined = 0
    bad = []

    def one(w):
        lit = w.replace('\\', '').replace('$$', '$')
        if '/' in lit or lit in ('', '.', '..'):
            return w, None, None
        m = rmake.rule_words('00 ' + w + ' 99', position, (), [lit])
        if m is None or len(set(m)) != len(m):
            return w, None, None
        r = real_make_rule_names('00 ' + w + ' 99', position, decoys=[lit])
        return w, sorted(set(m)), (sorted(set(r)) if isinstance(r, list) else r)
    with ThreadPoolExecutor(workers) as ex:
        for w, m, real in ex.map(one, words):
            if m is None or (isinstance(real, tuple) and real[0] == 'skip'):
                declined += 1
            elif real == m:
                agree += 1
            else:
                bad.append((w, m, real))
    return agree, declined, bad


# ------------------------------------------------------------------ pkg-config

def real_pkgconfig_cflags(value):
    """what `pkg-config --cflags x` prints for `Cflags: <value>` (string) or ('error', msg)"""
    if not _encodable(value) or '\n' in value or '\r' in value:
        return ('skip', '')
    with Scratch() as sc:
        sc.write('x.pc', 'Name: x\nDescription: x\nVersion: 1\nCflags: ' + value + '\n')
        r = subprocess.run(['pkg-config', '--cflags', 'x'], capture_output=True, timeout=20,
                           env={'PKG_CONFIG_PATH': sc.dir, 'PATH': '/usr/bin:/bin',
                                'PKG_CONFIG_ALLOW_SYSTEM_CFLAGS': '1'})
        if r.returncode != 0:
            return ('error', r.stderr.decode(errors='replace')[:120])
        return r.stdout.decode('utf-8', 'surrogateescape').rstrip('\n')


def real_pkgconfig_file(text, which):
    """what `pkg-config --cflags|--libs x` prints for a whole .pc file; returns (dir, output)"""
    if not _encodable(text) or '\r' in text:
        return None, ('skip', '')
    with Scratch() as sc:
        sc.write('x.pc', text)
        r = subprocess.run(['pkg-config', which, 'x'], capture_output=True, timeout=20,
                           env={'PKG_CONFIG_PATH': sc.dir, 'PATH': '/usr/bin:/bin'})
        if r.returncode != 0:
            return sc.dir, ('error', r.stderr.decode(errors='replace')[:120])
        return sc.dir, r.stdout.decode('utf-8', 'surrogateescape').rstrip('\n')


def check_rpc_file(names, workers=16):
    """whole-file reading: variables (definition-time expansion, ${pcfiledir}), -I / -L fragments"""
    from .models import rpc
    agree = declined = 0
    bad = []

    def texts(v):
        yield ('srcdir=/src dir\nbuilddir=${pcfiledir}/..\n\nName: x\nDescription: d\nVersion: 1\n'
               "Cflags: -I'${srcdir}/" + v + "' -DQ\nLibs: -L'${builddir}/" + v + "' -lfoo\n")
        yield ('prefix=/usr/local\nincludedir=${prefix}/' + v + '\nlibdir=${prefix}/lib\n\nName: x\n'
               'Description: d\nVersion: 1\nCflags: -I${includedir}/sub -DQ\nLibs: -L${libdir} -l' + v +
               '\n')

    def one(v):
        out = []
        for t in texts(v):
            for which, name in (('--cflags', 'Cflags'), ('--libs', 'Libs')):
                d, real = real_pkgconfig_file(t, which)
                if d is None:
                    out.append((t, None, None))
                    continue
                m = rpc.flags(t, d, name)
                out.append((t + which, m, real))
        return out
    with ThreadPoolExecutor(workers) as ex:
        for res in ex.map(one, names):
            for t, m, real in res:
                if m is None:
                    declined += 1
                elif isinstance(real, str) and real.rstrip(' ') == m.rstrip(' '):
                    agree += 1
                else:
                    bad.append((t, m, real))
    return agree, declined, bad


def check_rpc(values, workers=16):
    from .models import rpc
    agree = declined = 0
    bad = []

    def one(v):
        m = rpc.field('-Dq -D' + v + ' -Dz')
        if m is None:
            return v, None, None
        return v, m, real_pkgconfig_cflags('-Dq -D' + v + ' -Dz')
    with ThreadPoolExecutor(workers) as ex:
        for v, m, real in ex.map(one, values):
            if m is None or (isinstance(real, tuple) and real[0] == 'skip'):
                declined += 1
            elif real == m or (isinstance(real, tuple) and real[0] == 'error' and False):
                agree += 1
            else:
                bad.append((v, m, real))
    return agree, declined, bad


def check_make_inheritance():
    """GNU Make's lookup order for a variable in the recipe of a target that is built as a
    prerequisite of the goal: own target-specific > pattern-specific (%:) > inherited from the
    dependant > global.  All 8 combinations of (pattern line, dependant's value, own value)."""
    agree = 0
    bad = []
    for has_pat in (False, True):
        for has_parent in (False, True):
            for has_own in (False, True):
                text = 'V0 := g\n'
                text += ('%: V := $(V0)\n' if has_pat else 'V := $(V0)\n')
                if has_parent:
                    text += 'parent: V := p\n'
                if has_own:
                    text += 'child: V := c\n'
                text += 'parent: child ; @echo parent=$(V)\nchild: ; @echo child=$(V)\n'
                with Scratch() as sc:
                    mk = sc.write('Makefile', text)
                    r = subprocess.run([MAKE, '-rR', '-f', mk, 'parent'], capture_output=True,
                                       cwd=sc.dir, timeout=30)
                got = r.stdout.decode().split('\n')[0]
                want = 'child=' + ('c' if has_own else 'g' if has_pat else 'p' if has_parent else 'g')
                if got == want:
                    agree += 1
                else:
                    bad.append((text, want, got))
    return agree, 0, bad

"""E2 -- direct z3 queries on regular objects lifted out of the live code.

A compiled single-character class taken from an imported bfg9000 module (e.g.
``posix._bad_chars``) is translated to a z3 predicate over code points with the same Unicode tables
CrossHair uses (``crosshair.libimpl.relib.single_char_mask``), and z3 is asked for a code point in
0..0x10FFFF that a consumer model treats as special but the class does not cover.  ``unsat`` means
the inclusion holds for every code point that exists; ``sat`` yields the witness.
"""
import time

import z3
from crosshair.libimpl import relib


def class_pred(pattern, flags=0):
    items = list(relib.parse(pattern, flags))
    if len(items) != 1:
        raise ValueError('not a single character class: %r' % pattern)
    mask = relib.single_char_mask(items[0], flags)
    if mask is None:
        raise ValueError('cannot translate %r' % pattern)
    return mask.smt_matches


def in_set(c, chars):
    return z3.Or([c == ord(ch) for ch in chars]) if chars else z3.BoolVal(False)


def query(name, constraint_builder, timeout_ms=60000):
    """constraint_builder(c) -> list of z3 constraints describing a *bad* code point."""
    t0 = time.time()
    c = z3.Int('c')
    s = z3.Solver()
    s.set('timeout', timeout_ms)
    s.add(c >= 0, c <= 0x10FFFF)
    try:
        s.add(*constraint_builder(c))
        r = s.check()
    except Exception as e:   # noqa
        return {'name': name, 'status': 'error', 'detail': '%s: %s' % (type(e).__name__, e)}
    out = {'name': name, 'result': str(r), 'time_s': round(time.time() - t0, 3)}
    if str(r) == 'unsat':
        out['status'] = 'holds'
    elif str(r) == 'sat':
        w = s.model()[c].as_long()
        out['status'] = 'violated'
        out['witness'] = 'U+%04X %r' % (w, chr(w))
        out['witness_cp'] = w
    else:
        out['status'] = 'error'
        out['detail'] = 'unknown: ' + s.reason_unknown()
    return out

"""C03 -- the generated dependency graph equals the script's graph (local obligations).

L1  per builtin call with a symbolic *shape* (which optional inputs exist): every produced file has
    exactly one producing rule, and that rule (transitively through stamp / phony indirections)
    depends on every file the step consumes -- in the Makefile objects and in the NinjaFile objects
    produced by the real handlers.
L3  DefaultOutputs as a state machine + the `all` rules: the default target builds exactly the
    default set for every history of link / default / install / test calls."""
import os
from typing import List, Tuple

os.environ['PATH'] = '/venv/bin:' + os.environ.get('PATH', '')

from bfg9000.builtins import default as bdefault
from bfg9000.backends.make.syntax import Makefile
from bfg9000.backends.ninja.syntax import NinjaFile
from bfg9000.path import Path, Root

from vpx.params import R, param
from vpx.harness import c06 as infra      # real Environment + BuildContext + handler driver

ENV = infra.ENV


from bfg9000.file_types import Node as _Node
from bfg9000.builtins import tests as btests


class _Out(_Node):
    """a produced file as DefaultOutputs and test() see it"""
    def __init__(self, name):
        _Node.__init__(self, Path(name))
        self.name = name
        self.creator = object()


class _TEnv:
    def run_arguments(self, args, lang=None):
        return args


class _TCtx:
    env = _TEnv()

    def __init__(self, build):
        self.build = build


class _Build(dict):
    pass


def _part(op):
    """12 partitions of one call: kind x output, both test() forms together"""
    o, i = op
    return (3 if o == 4 else o) * 3 + i


def d_defaults(ops: List[Tuple[int, int]]) -> bool:
    """every history of link(x) / default(x) / install(x) / test(x) / test(x, driver=...) over
    three outputs (the real TestCase / TestDriver constructors): the default target builds the
    explicitly requested outputs if there are any, else every linked output that was not handed
    to test(), directly or below a test driver; the Make and Ninja `all` rules list exactly that set
    pre: len(ops) == param('NO', 3) and all(0 <= o < 5 and 0 <= i < 3 for o, i in ops)
    pre: param('P0', -1) < 0 or _part(ops[0]) == param('P0', -1)
    pre: param('P1', -1) < 0 or _part(ops[1]) == param('P1', -1)
    post: _
    """
    outs = [_Out('x0'), _Out('x1'), _Out('x2')]
    d = bdefault.DefaultOutputs()
    tctx = _TCtx({'defaults': d, 'tests': btests.TestInputs()})
    drv = btests.TestDriver(tctx, ['driver-prog'])
    linked = []
    explicit = []
    tested = []
    for o, i in ops:
        x = outs[i]
        if o == 0:
            if i in linked:
                continue            # an output is linked by exactly one step
            linked.append(i)
            d.add(x)                # Link.__init__
        elif o == 1 or o == 2:
            if i not in linked:
                continue            # only existing outputs can be passed on
            explicit.append(i)
            d.add(x, explicit=True)   # default() / install()
        else:
            if i not in linked:
                continue
            tested.append(i)
            if o == 3:
                btests.TestCase(tctx, x)
            else:
                btests.TestCase(tctx, [x, '--flag'], driver=drv)
    want = sorted(set(explicit)) if explicit else sorted(i for i in linked if i not in tested)
    got = sorted(set(outs.index(x) for x in d.outputs))
    ok = got == want
    build = _Build(defaults=d)
    mk = Makefile('build.bfg')
    bdefault.make_all_rule(build, mk, ENV)
    nf = NinjaFile('build.bfg')
    bdefault.ninja_all_rule(build, nf, ENV)
    r = mk._rules[-1]
    b = nf._builds[-1]
    ok = ok and r.targets == ['all'] and sorted(set(outs.index(x) for x in r.deps)) == want
    ok = ok and b.outputs == ['all'] and sorted(set(outs.index(x) for x in b.inputs)) == want
    ok = ok and nf._defaults == ['all']
    return R(ok)


def _sfx(x):
    p = getattr(x, 'path', x)
    if isinstance(p, str):
        return p
    return ('src:' if p.root == Root.srcdir else '') + p.suffix


def _make_graph(mk):
    """target -> (set of prerequisite names incl. order-only, has_recipe), multiplicity"""
    prod = {}
    for r in mk._rules:
        # order-only prerequisites do not trigger a rebuild: consumed files must be normal ones
        deps = set(_sfx(d) for d in r.deps)
        for t in r.targets:
            prod.setdefault(_sfx(t), []).append((deps, r.recipe is not None))
    return prod


def _ninja_graph(nf):
    prod = {}
    for b in nf._builds:
        deps = set(_sfx(d) for d in b.inputs) | set(_sfx(d) for d in b.implicit)
        for t in b.outputs:
            prod.setdefault(_sfx(t), []).append((deps, b.rule != 'phony'))
    return prod


def _closure_has(prod, target, wanted, depth=0):
    """does `wanted` appear among the prerequisites of `target`, looking through recipe-less
    (stamp / phony) indirections"""
    if depth > 3 or target not in prod:
        return False
    for deps, has_recipe in prod[target]:
        if wanted in deps:
            return True
        for d in deps:
            if d in prod and any(not hr for _, hr in prod[d]) or d.endswith('.stamp'):
                if _closure_has(prod, d, wanted, depth + 1):
                    return True
    return False


def _check(prod, outputs, consumed):
    for o in outputs:
        if o not in prod:
            return False
        if len([1 for _, hr in prod[o] if hr]) > 1 or len(prod[o]) != 1:
            return False             # exactly one producing rule per file
        for c in consumed:
            if not _closure_has(prod, o, c):
                return False
    return True


def e_edges(nfiles: int, haslib: bool, nextra: int, cextra: int, nout: int, hasalias: bool,
            hasinc: bool, haspre: bool, hasver: bool, haspch: bool) -> bool:
    """a script made of object files, a static library, an executable, a multi-output build_step,
    a copy and an alias, with a symbolic shape: every output has exactly one producing rule in both
    backends and every step depends on everything it consumes
    pre: 1 <= nfiles <= 2 and 0 <= nextra <= 2 and 0 <= cextra <= 1 and 1 <= nout <= 2
    pre: nfiles == param('NFILES', 1) and haslib == bool(param('HASLIB', 0))
    pre: hasinc == bool(param('HX', 0) & 1) and haspre == bool(param('HX', 0) & 2) and hasver == bool(param('HX', 0) & 4)
    pre: haspch == bool(param('HX', 0) & 8)
    post: _
    """
    build, ctx = infra._context()
    hdrs = [ctx['header_file']('h%d.h' % i) for i in range(2)]
    lib = ctx['static_library']('util', files=['u.c']) if haslib else None
    srcs = ['a.c', 'b.c'][:nfiles]
    ckw = {}
    if hasinc:
        # a header *file* passed through includes= is a dependency of the compile step
        ckw['includes'] = [ctx['header_file']('inc/cfg.h')]
    if haspch:
        # a precompiled header is an input of every compile step that uses it
        ckw['pch'] = ctx['precompiled_header'](file='pch.h')
    objs = ctx['object_files'](srcs, extra_deps=hdrs[:cextra], **ckw)
    kw = {}
    libs = []
    if lib is not None:
        libs.append(lib)
    if haspre:
        # a library that already exists in the source tree (no producing step)
        libs.append(ctx['static_library']('pre/libpre.a'))
    if libs:
        kw['libs'] = libs
    ver = None
    if hasver:
        ver = ctx['shared_library']('ver', files=['v.c'], version='1.2.3', soversion='1')
    exe = ctx['executable']('prog', files=objs, extra_deps=hdrs[:nextra], **kw)
    gen_out = ['g1.txt', 'g2.txt'][:nout]
    gsrc = ctx['generic_file']('in.txt')
    gen = ctx['build_step'](gen_out, cmd=['gen', gsrc], extra_deps=hdrs[:nextra])
    cp = ctx['copy_file'](file='data.txt')
    if hasalias:
        ctx['alias']('everything', [exe, cp])
    edges, mk, nf, cdb = infra._run_handlers(build)
    ok = True
    for prod in (_make_graph(mk), _ninja_graph(nf)):
        for i, s in enumerate(srcs):
            o = s[:-2] + '.o'
            ok = ok and _check(prod, [o], ['src:' + s] + ['src:h%d.h' % k for k in range(cextra)] +
                               (['src:inc/cfg.h'] if hasinc else []) +
                               (['pch.h.gch'] if haspch else []))
        if haspch:
            ok = ok and _check(prod, ['pch.h.gch'], ['src:pch.h'])
        consumed = [s[:-2] + '.o' for s in srcs] + ['src:h%d.h' % k for k in range(nextra)]
        if haslib:
            consumed.append('libutil.a')
            ok = ok and _check(prod, ['libutil.a'], ['libutil.int/u.o']) and \
                _check(prod, ['libutil.int/u.o'], ['src:u.c'])
        if haspre:
            consumed.append('src:pre/libpre.a')
        ok = ok and _check(prod, ['prog'], consumed)
        ok = ok and _check(prod, gen_out, ['src:in.txt'] + ['src:h%d.h' % k for k in range(nextra)])
        ok = ok and _check(prod, ['data.txt'], ['src:data.txt'])
        if hasalias:
            ok = ok and _check(prod, ['everything'], ['prog', 'data.txt'])
    # the default target: every linked output in its *public* form (the unversioned name of a
    # versioned shared library), nothing else
    mk2 = Makefile('build.bfg')
    bdefault.make_all_rule(build, mk2, ENV)
    nf2 = NinjaFile('build.bfg')
    bdefault.ninja_all_rule(build, nf2, ENV)
    want_all = ['prog'] + (['libutil.a'] if haslib else []) + (['libver.so'] if hasver else [])
    ok = ok and sorted(_sfx(d) for d in mk2._rules[-1].deps) == sorted(want_all)
    ok = ok and sorted(_sfx(d) for d in nf2._builds[-1].inputs) == sorted(want_all)
    return R(ok)


def k_always_outdated(nout: int, ao: bool, hasdep: bool) -> bool:
    """build_step with 1-2 outputs: the rule that carries the recipe is run on every build exactly
    when always_outdated=True (Make: that rule's target is phony; Ninja: the build depends on the
    never-up-to-date PHONY target), in both backends alike, and every declared output still has
    exactly one producer
    pre: 1 <= nout <= 2
    post: _
    """
    build, ctx = infra._context()
    names = ['gen.c', 'gen.h'][:nout]
    ctx['build_step'](names if nout > 1 else names[0], cmd=['prog', 'x'], always_outdated=ao,
                      extra_deps=[ctx['generic_file']('in.txt')] if hasdep else [])
    edges, mk, nf, cdb = infra._run_handlers(build)
    ok = True
    recipe_rules = [r for r in mk._rules if r.recipe is not None]
    if len(recipe_rules) != 1:
        return R(False)
    ok = ok and bool(recipe_rules[0].phony) == ao
    # every declared output is made by that rule or hangs on it
    rt = [_sfx(t) for t in recipe_rules[0].targets]
    for n in names:
        prods = [r for r in mk._rules if n in [_sfx(t) for t in r.targets]]
        if len(prods) != 1:
            return R(False)
        r = prods[0]
        if r is not recipe_rules[0]:
            ok = ok and any(_sfx(d) in rt for d in r.deps) and not r.phony
    cmds = [b for b in nf._builds if b.rule not in ('phony',)]
    if len(cmds) != 1:
        return R(False)
    ok = ok and sorted(_sfx(o) for o in cmds[0].outputs) == sorted(names)
    ok = ok and ('PHONY' in [_sfx(i) for i in cmds[0].implicit]) == ao
    return R(ok)

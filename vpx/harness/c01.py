"""C01 -- Make backend: every argument reaches the spawned process unchanged.

Each function drives the real bfg9000 writer for one argument position with a symbolic string,
decodes the emitted text with the reference models of Make (rmake) and sh (rsh) and compares with
the intended argv / environment.  Bounds come from vpx.params (exact length N; optional first
character class FIRST for partitioning).
"""
from io import StringIO

from bfg9000 import safe_str
from bfg9000.backends.make import syntax as msyntax
from bfg9000.backends.make.syntax import Makefile, Syntax, Variable, Pattern, Silent, Function
from bfg9000.shell import posix as pshell
from bfg9000.builtins import tests as btests
from bfg9000.path import Path, Root

from vpx.params import R, param, no_ctl
from vpx.models import rsh, rmake

N = param('N', 2)
MK = Makefile('build.bfg', gnu=True)
COMMA = ((',', ','),)
# known finding F3 (DESIGN.md §4): a recipe command word starting with @ - + loses that character
KF_CMDWORD = param('kf_cmdword', False)
# known finding: a command word of the form NAME=... is read by sh as an assignment
KF_CMDASSIGN = param('kf_cmdassign', False)


def _assign_like(s):
    k = s.find('=')
    return k > 0 and rsh._is_name(s[:k])


def _shell_text(args):
    out = MK.writer(StringIO())
    out.write_shell(args)
    return out.stream.getvalue()


def a_recipe_arg(s: str) -> bool:
    """
    pre: len(s) == N and no_ctl(s)
    post: _
    """
    line = rmake.recipe(_shell_text(['prog', s]), COMMA)
    return R(line is not None and rsh.argv(line) == ['prog', s])


def b_command_word(s: str) -> bool:
    """
    pre: len(s) == N and no_ctl(s) and len(s) > 0
    pre: not (KF_CMDWORD and s[0] in '@-+') and not (KF_CMDASSIGN and _assign_like(s))
    post: _
    """
    line = rmake.recipe(_shell_text([s, 'x']), COMMA)
    return R(line is not None and rsh.argv(line) == [s, 'x'])


def b_command_word_silent(s: str) -> bool:
    """
    pre: len(s) == N and no_ctl(s) and len(s) > 0
    pre: not (KF_CMDWORD and s[0] in '@-+') and not (KF_CMDASSIGN and _assign_like(s))
    post: _
    """
    line = rmake.recipe(_shell_text(Silent([s, 'x'])), COMMA)
    return R(line is not None and rsh.argv(line) == [s, 'x'])


def _var_text(value, target=None):
    out = MK.writer(StringIO())
    MK._write_variable(out, Variable('FLAGS'), value, Syntax.shell, target=target)
    text = out.stream.getvalue()
    if target is None:
        head = 'FLAGS := '
    else:
        head = '%: FLAGS := '
    if not (text.startswith(head) and text.endswith('\n')):
        return None
    return text[len(head):-1]


def c_global_variable(s: str) -> bool:
    """
    pre: len(s) == N and no_ctl(s)
    post: _
    """
    rhs = _var_text(['-a', s])
    if rhs is None:
        return False
    val = rmake.assign_value(rhs, COMMA)
    if val is None:
        return R(False)
    line = rmake.recipe(_shell_text(['prog', Variable('FLAGS')]), COMMA + (('FLAGS', val),))
    return R(line is not None and rsh.argv(line) == ['prog', '-a', s])


def c_global_variable_first(s: str) -> bool:
    """the symbolic word is the first one of the value (leading-blank stripping of `:=`)
    pre: len(s) == N and no_ctl(s)
    post: _
    """
    rhs = _var_text([s, '-b'])
    if rhs is None:
        return False
    val = rmake.assign_value(rhs, COMMA)
    if val is None:
        return R(False)
    line = rmake.recipe(_shell_text(['prog', Variable('FLAGS')]), COMMA + (('FLAGS', val),))
    return R(line is not None and rsh.argv(line) == ['prog', s, '-b'])


def d_target_variable(s: str) -> bool:
    """`%: FLAGS := $(GLOBAL) s` -- the form written for per-target compile/link options
    pre: len(s) == N and no_ctl(s)
    post: _
    """
    rhs = _var_text([Variable('GLOBAL'), s], target=Pattern('%'))
    if rhs is None:
        return False
    val = rmake.assign_value(rhs, COMMA + (('GLOBAL', '-g'),))
    if val is None:
        return R(False)
    line = rmake.recipe(_shell_text(['prog', Variable('FLAGS'), '-o', 'x']),
                        COMMA + (('FLAGS', val),))
    return R(line is not None and rsh.argv(line) == ['prog', '-g', s, '-o', 'x'])


def e_global_env(s: str) -> bool:
    """build_step/command environment: `export V=s && prog x`
    pre: len(s) == N and no_ctl(s)
    post: _
    """
    cmd = pshell.global_env({'V': s}, [['prog', 'x']])
    line = rmake.recipe(_shell_text(cmd), COMMA)
    if line is None:
        return R(False)
    r = rsh.run(line)
    return R(r is not None and r[1] == ['prog', 'x'] and rmake.lookup(list(r[0].items()), 'V') == s)


def f_local_env(s: str) -> bool:
    """test environment: `V=s prog x`
    pre: len(s) == N and no_ctl(s)
    post: _
    """
    cmd = pshell.local_env({'V': s}, ['prog', 'x'])
    line = rmake.recipe(_shell_text(cmd), COMMA)
    if line is None:
        return R(False)
    r = rsh.run(line)
    return R(r is not None and r[1] == ['prog', 'x'] and rmake.lookup(list(r[0].items()), 'V') == s)


class _T:
    def __init__(self, cmd, env=None):
        self.cmd = cmd
        self.env = env or {}
        self.inputs = []


class _D(btests.TestDriver):
    def __init__(self, cmd, tests):
        self.cmd = cmd
        self.env = {}
        self.inputs = []
        self.tests = tests


def g_nested_driver(s: str) -> bool:
    """test_driver: the child command line is one argument that the driver splits again
    pre: len(s) == N and no_ctl(s)
    post: _
    """
    cmds, deps = btests._build_commands([_D(['driver'], [_T(['c', s])])], MK.writer,
                                        pshell.local_env)
    if len(cmds) != 1:
        return False
    line = rmake.recipe(_shell_text(cmds[0]), COMMA)
    if line is None:
        return R(False)
    outer = rsh.argv(line)
    if outer is None or len(outer) != 2 or outer[0] != 'driver':
        return R(False)
    return R(rsh.argv(outer[1]) == ['c', s])


def h_option_string(o: str) -> bool:
    """option strings are split by sh rules (no escapes, as documented) and each piece is
    delivered as one argument
    pre: len(o) == N and no_ctl(o)
    post: _
    """
    try:
        parts = pshell.listify(o)
    except ValueError:
        return True          # unbalanced quote: rejected at configure time
    line = rmake.recipe(_shell_text(['prog'] + parts), COMMA)
    if line is None:
        return R(False)
    got = rsh.argv(line)
    if got != ['prog'] + parts:
        return R(False)
    # and the split itself is sh's, for strings sh and shlex(no escapes) read alike
    if '\\' in o or '"' in o or '$' in o or '`' in o:
        return R(True)
    ref = rsh.argv('prog ' + o)
    return R(ref is None or ref == ['prog'] + parts)


def _path_ok(s):
    """representation invariant of a path component (established by BasePath.__init__, C12)"""
    return len(s) > 0 and '/' not in s and chr(92) not in s and s != '.' and s != '..'


def _mkpath(suffix, root):
    p = Path.__new__(Path)
    p.suffix = suffix
    p.root = root
    p.directory = False
    p.destdir = False
    return p


SRC = (('srcdir', '.'),)


def k_path_arg(s: str) -> bool:
    """a file argument (source-tree path with one symbolic component) in a recipe
    pre: len(s) == N and no_ctl(s) and _path_ok(s)
    post: _
    """
    line = rmake.recipe(_shell_text(['prog', _mkpath('d/' + s, Root.srcdir)]), COMMA + SRC)
    return R(line is not None and rsh.argv(line) == ['prog', './d/' + s])


def k_include_dir(s: str) -> bool:
    """-I<dir> with a symbolic build-tree directory name inside a per-target variable
    (a top-level build-tree path is realised as ./name)
    pre: len(s) == N and no_ctl(s) and _path_ok(s)
    post: _
    """
    inc = safe_str.jbos('-I', _mkpath(s, Root.builddir))
    rhs = _var_text([Variable('GLOBAL'), inc], target=Pattern('%'))
    if rhs is None:
        return False
    val = rmake.assign_value(rhs, COMMA + (('GLOBAL', '-g'),))
    if val is None:
        return R(False)
    line = rmake.recipe(_shell_text(['prog', Variable('FLAGS')]), COMMA + (('FLAGS', val),))
    return R(line is not None and rsh.argv(line) == ['prog', '-g', '-I./' + s])

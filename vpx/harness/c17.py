"""C17 -- version-specifier algebra of generated pkg-config files.

Versions are points of a dense total order: the specifiers use the even integers 0, 2, 4 and the
probe version ranges over every integer -1..5 (one point below, between and above each), which is a
complete set of representatives w.r.t. the six comparison operators.  The real
simplify_specifiers / Requirement / RequirementSet code runs on stub Specifier objects that offer
exactly the interface it uses (.operator, .version, `in`, ==, str)."""
from typing import List, Tuple

from bfg9000 import versioning
from bfg9000.builtins import pkg_config as pc

from vpx.params import R, param

K = param('K', 3)          # exact number of specifiers
F = param('F', -1)         # operator of the first specifier (partition), -1 = any
G = param('G', -1)         # version point of the first specifier (partition), -1 = any
OPS = ['==', '!=', '>', '>=', '<', '<=']
PROBES = list(range(-1, 6))


class Spec:
    def __init__(self, op, version):
        self.operator = op
        self.version = version

    def contains(self, v):
        o = self.operator
        x = self.version
        if o == '==':
            return v == x
        if o == '!=':
            return v != x
        if o == '>':
            return v > x
        if o == '>=':
            return v >= x
        if o == '<':
            return v < x
        return v <= x
    __contains__ = contains

    def __eq__(self, rhs):
        return self.operator == rhs.operator and self.version == rhs.version

    def __ne__(self, rhs):
        return not self == rhs

    def __hash__(self):
        return 0

    def __str__(self):
        k = 'k%d' % len(TABLE)
        TABLE[k] = self
        return k


TABLE = {}


class SpecSet:
    """stand-in for verspec SpecifierSet; the text form is a key into TABLE or `op` + point"""
    def __init__(self, text=''):
        if isinstance(text, list):
            self.specs = text
            return
        self.specs = []
        for t in text.split(','):
            if not t:
                continue
            if t in TABLE:
                self.specs.append(TABLE[t])
            else:
                op = t[:2] if t[:2] in OPS else t[:1]
                self.specs.append(Spec(op, int(t[len(op):])))

    def __iter__(self):
        return iter(self.specs)

    def __len__(self):
        return len(self.specs)

    def __contains__(self, v):
        return all(s.contains(v) for s in self.specs)

    def __and__(self, rhs):
        return SpecSet(self.specs + rhs.specs)

    def __eq__(self, rhs):
        return self.specs == rhs.specs

    def __hash__(self):
        return 0


versioning.SpecifierSet = SpecSet
pc.SpecifierSet = SpecSet
pc.Specifier = Spec


def _mk(raw):
    return [Spec(OPS[o], 2 * x) for o, x in raw]


def _valid(raw):
    return all(0 <= o < 6 and 0 <= x <= 2 for o, x in raw)


def _part(raw):
    return ((F < 0 or (len(raw) > 0 and raw[0][0] == F)) and
            (G < 0 or (len(raw) > 0 and raw[0][1] == G)))


def s_simplify(raw: List[Tuple[int, int]], v: int) -> bool:
    """simplify_specifiers is exact: same members, and rejection iff unsatisfiable
    pre: len(raw) == K and _valid(raw) and _part(raw) and -1 <= v <= 5
    post: _
    """
    TABLE.clear()
    orig = SpecSet(_mk(raw))
    try:
        res = versioning.simplify_specifiers(SpecSet(_mk(raw)))
    except ValueError:
        return R(v not in orig)
    if not any(p in res for p in PROBES):
        return R(False)          # unsatisfiable result must have been rejected
    return R((v in res) == (v in orig) and len(res) <= max(len(raw), 1))


def m_merge(a: List[Tuple[int, int]], b: List[Tuple[int, int]], v: int) -> bool:
    """public + private requirement on one name: RequirementSet.merge_from + split(single=True)
    accepts exactly the intersection (or is rejected at configure time)
    pre: len(a) + len(b) == K and len(b) >= 1 and _valid(a) and _valid(b) and _part(b) and -1 <= v <= 5
    post: _
    """
    TABLE.clear()
    pub = pc.RequirementSet([pc.Requirement('foo', SpecSet(_mk(a)))])
    priv = pc.RequirementSet([pc.Requirement('foo', SpecSet(_mk(b))),
                              pc.Requirement('bar', SpecSet(_mk(b)))])
    pub.merge_from(priv)
    if [i.name for i in priv] != ['bar']:
        return R(False)
    both = SpecSet(_mk(a) + _mk(b))
    try:
        out = pub.split(single=True)
    except ValueError as e:
        if 'multiple specifiers' in str(e):
            return R(True)      # representable only as several entries: rejected, not mis-stated
        return R(v not in both)
    if len(out) != 1 or out[0].name != 'foo':
        return R(False)
    spec = out[0].version
    if spec is None:
        return R(v in both)
    if not any(spec.contains(p) for p in PROBES):
        return R(False)
    return R(spec.contains(v) == (v in both))


def c_conflicts(a: List[Tuple[int, int]], v: int) -> bool:
    """Conflicts / multi-entry lists: split() emits one entry per simplified specifier, whose
    conjunction accepts exactly the original members
    pre: len(a) == K and _valid(a) and _part(a) and -1 <= v <= 5
    post: _
    """
    TABLE.clear()
    rs = pc.RequirementSet([pc.Requirement('foo', SpecSet(_mk(a)))])
    orig = SpecSet(_mk(a))
    try:
        out = rs.split()
    except ValueError:
        return R(v not in orig)
    ok = all(i.name == 'foo' for i in out)
    got = all(i.version is None or i.version.contains(v) for i in out)
    return R(ok and got == (v in orig))


# ---- kernel 2: field quoting of the generated .pc file -----------------------------------------
from io import StringIO
from bfg9000.builtins.pkg_config import PkgConfigWriter
from bfg9000.shell.syntax import Writer as ShWriter, Syntax as ShSyntax
from vpx.params import no_ctl
from vpx.models import rpc, rsh

NQ = param('N', 2)
# characters a .pc field cannot carry to the consumer at all (established at run time with
# hand-written .pc files and the real pkg-config: vpx.props.c17.probe)
PC_EXCL = param('pc_excl', '$()')
# known finding C17-F17: a backslash directly before '#'
KF_BSHASH = param('kf_bshash', False)


def _field_text(values):
    out = ShWriter(StringIO(), localize_paths=False)
    w = PkgConfigWriter.__new__(PkgConfigWriter)
    w._write_field(out, 'Cflags', values, ShSyntax.shell)
    text = out.stream.getvalue()
    head = 'Cflags: '
    if not (text.startswith(head) and text.endswith('\n')):
        return None
    return text[len(head):-1]


def _in_scope(s):
    for ch in s:
        if ch in PC_EXCL:
            return False
    if KF_BSHASH and (chr(92) + '#') in s:
        return False
    return True


def q_define(s: str) -> bool:
    """a compile option -D<s> written into Cflags by the real PkgConfigWriter._write_field comes
    out of `pkg-config --cflags` (reference model of pkgconf, validated against the real tool) and
    through the consumer's sh parsing as exactly that option
    pre: len(s) == NQ and no_ctl(s) and _in_scope(s)
    post: _
    """
    text = _field_text(['-DA=1', '-D' + s, '-DZ=2'])
    if text is None:
        return R(False)
    printed = rpc.field(text)
    if printed is None:
        return R(False)
    return R(rsh.argv('prog ' + printed) == ['prog', '-DA=1', '-D' + s, '-DZ=2'])


# ---- kernel 3: auto_fill only fills what the script left unspecified ----------------------------
from bfg9000 import file_types as _ft
from bfg9000.path import Path as _Path


class _Info:
    def __init__(self, auto_fill, name, version, includes, libs):
        self.auto_fill = auto_fill
        self.name = name
        self.version = version
        self.includes = includes
        self.libs = libs


class _Proj:
    name = 'proj'
    version = '1.0'


class _Inst:
    pass


class _ACtx:
    pass


def a_autofill(auto: bool, st_name: int, st_version: int, st_includes: int, st_libs: int) -> bool:
    """pkg_config(auto_fill=...) : a field the script declared -- even as an empty list -- is kept
    as declared; only fields left out (None) are filled from the project and the explicitly
    installed headers / libraries, and only when auto_fill is on
    pre: 0 <= st_name < 2 and 0 <= st_version < 2 and 0 <= st_includes < 3 and 0 <= st_libs < 3
    post: _
    """
    hdr = _ft.HeaderDirectory(_Path('include', directory=True))
    lib = _ft.StaticLibrary(_Path('libfoo.a'), 'elf', 'c')
    other = _ft.StaticLibrary(_Path('libother.a'), 'elf', 'c')
    declared = {
        'name': [None, 'mine'][st_name], 'version': [None, '2.0'][st_version],
        'includes': [None, [], [hdr]][st_includes], 'libs': [None, [], [other]][st_libs],
    }
    info = _Info(auto, declared['name'], declared['version'], declared['includes'],
                 declared['libs'])
    inst = _Inst()
    inst.explicit = [hdr, lib]
    ctx = _ACtx()
    ctx.build = {'project': _Proj(), 'install': inst, 'pkg_config': [info]}
    written = []
    old = pc._write_pkg_config
    pc._write_pkg_config = lambda context, i: written.append(i)
    try:
        pc.finalize_pkg_config(ctx)
    finally:
        pc._write_pkg_config = old
    defaults = {'name': 'proj', 'version': '1.0', 'includes': [hdr], 'libs': [lib]}
    ok = True
    for k in ('name', 'version', 'includes', 'libs'):
        want = declared[k]
        if want is None and auto:
            want = defaults[k]
        ok = ok and getattr(info, k) == want
    return R(ok and (written == [info]) == auto)


# ---- kernel 4: include / library directories through the whole generated file -------------------
from bfg9000.environment import Environment as _Environment
from bfg9000.build_inputs import BuildInputs as _BuildInputs
from bfg9000.builtins import builtin as _builtin, install as _binstall     # noqa: F401
from bfg9000.path import Root as _Root, InstallRoot as _InstallRoot, abspath as _abspath

WHICH = param('which', 'uninstalled')


def _mkenv17():
    # source and build directories with a blank: a fragment spelled ${srcdir}/x must be quoted
    # although its own text needs no quoting
    env = _Environment(_abspath('/bfgdir'), 'make', None, _abspath('/src dir'),
                       _abspath('/build dir'))
    env.finalize({_InstallRoot.prefix: _abspath('/usr/local')}, (True, False), True)
    env.builder('c')
    return env


ENV17 = _mkenv17()
PCDIR = '/build dir/pkgconfig'
# known finding C17-F21: an install directory whose text is special for pkgconf inside a fragment
KF_PCVAR = param('kf_pcvar', False)


def _mkpath17(suffix, root, directory=False):
    p = _Path.__new__(_Path)
    p.suffix = suffix
    p.root = root
    p.directory = directory
    p.destdir = False
    return p


def _dname_ok(s):
    return len(s) > 0 and '/' not in s and chr(92) not in s and s != '.' and s != '..' and \
        s[0] != '~' and s[1:2] != ':'


class _Ctx17:
    pass


def _pc_data(hdr, lib):
    return dict(name='pkg', desc_name='pkg', desc='d', url='u', version='1.0', requires=[],
                requires_private=[], conflicts=[], includes=[hdr], libs=[lib], libs_private=[],
                options=[], link_options=[], link_options_private=[], lang='c', extra_pkgs=[],
                extra_pkgs_private=[])


def i_text(s, which):
    """the generated file and the flags it must deliver (pcdir -> (cflags argv, libs argv))"""
    env = ENV17
    ctx = _Ctx17()
    ctx.env = env
    ctx.build = _BuildInputs(env, _Path('build.bfg', _Root.srcdir))
    w = PkgConfigWriter(ctx)
    out = StringIO()
    if which == 'uninstalled':
        hdr = _ft.HeaderDirectory(_mkpath17('inc/' + s, _Root.srcdir, True))
        lib = _ft.StaticLibrary(_mkpath17('sub/' + s + '/libfoo.a', _Root.builddir), 'elf', 'c')
        w._write(out, _pc_data(hdr, lib), False)

        def want(pcdir):
            return ['prog', '-I/src dir/inc/' + s], ['prog', '-L' + pcdir + '/../sub/' + s, '-lfoo']
    else:
        hdr = _ft.HeaderDirectory(_mkpath17('inc', _Root.srcdir, True))
        lib = _ft.StaticLibrary(_mkpath17('libfoo.a', _Root.builddir), 'elf', 'c')
        old = dict(env.install_dirs)
        pre = _mkpath17('/opt/' + s, _Root.absolute, True)
        env.install_dirs = dict(old)
        env.install_dirs[_InstallRoot.prefix] = pre
        try:
            ctx.build['install'].add(hdr)
            ctx.build['install'].add(lib)
            w._write(out, _pc_data(hdr, lib), True)
        finally:
            env.install_dirs = old

        def want(pcdir):
            return ['prog', '-I/opt/' + s + '/include'], ['prog', '-L/opt/' + s + '/lib', '-lfoo']
    return out.getvalue(), want


IPART = param('part', -1)
_SPECIAL17 = ' \t#%{}[]*?;&|<>!~=:,@+^`' + chr(34) + chr(39)


def _ipart(s):
    """partition of the first character (the union of the four classes is everything)"""
    if IPART < 0 or s == '':
        return True
    c = s[0]
    alnum = ('a' <= c <= 'z') or ('A' <= c <= 'Z') or ('0' <= c <= '9')
    special = c in _SPECIAL17
    if IPART == 0:
        return alnum
    if IPART == 1:
        return special
    if IPART == 2:
        return (not alnum) and (not special) and ord(c) < 128
    return ord(c) >= 128


def _pcvar_special(s):
    return chr(39) in s or chr(34) in s or (s != '' and s[-1] in rpc.WS)


def i_paths(s: str) -> bool:
    """the real PkgConfigWriter._write with an include directory / library directory (uninstalled
    variant) or an install prefix (installed variant) containing the component <s>: the whole
    file read by pkgconf (rpc.pcfile: variables with definition-time expansion, ${pcfiledir},
    directory fragments) and the printed flags parsed by the consumer's sh give exactly
    -I<declared directory>, -L<library directory> -lfoo
    pre: len(s) == NQ and no_ctl(s) and _dname_ok(s) and _in_scope(s)
    pre: not (KF_PCVAR and WHICH == 'installed' and _pcvar_special(s))
    pre: _ipart(s)
    post: _
    """
    text, want = i_text(s, WHICH)
    want_c, want_l = want(PCDIR)
    c = rpc.flags(text, PCDIR, 'Cflags')
    l = rpc.flags(text, PCDIR, 'Libs')
    if c is None or l is None:
        return R(False)
    return R(rsh.argv('prog ' + c) == want_c and rsh.argv('prog ' + l) == want_l)

"""C14 -- linked binaries: forwarding closure/order of static-library requirements and the
relative run-time search path."""
import posixpath
from typing import List

from bfg9000 import options as opts
from bfg9000.file_types import StaticLibrary, SharedLibrary, Executable
from bfg9000.path import Path, Root
from bfg9000.builtins import link as blink
from bfg9000.tools import patchelf

from vpx.params import R, param

NLIBS = param('NLIBS', 4)
# known finding C14-F5 (if open): keep-first de-duplication may put a shared dependency before a
# later dependant; the harness then only demands the closure, not the order
KF_ORDER = param('kf_order', False)


class _Ctx:
    build = {}

    def __getitem__(self, name):
        assert name == 'relpath'
        return lambda n: Path(n)


class _Linker:
    needs_libs = True
    needs_package_options = False


class _FakeLink:
    """stand-in `self` for the unbound real methods Link.__init__ / Link._fill_options"""
    _prefix = ''
    entry_point = None
    module_defs = None
    input_langs = ['c']
    packages = []
    linker = _Linker()

    @classmethod
    def _Link__name(cls, name):
        return name

    def _get_linkers(self, env, langs):
        return []


def _real_link_libs(user, link_options=None):
    """run the real Link.__init__ up to the point where self.libs is computed (it stops with
    'need at least one source file' right after), then the real Link._fill_options"""
    obj = _FakeLink()
    try:
        blink.Link.__init__(obj, _Ctx(), 'x', [], user, [], link_options or opts.option_list())
    except ValueError:
        pass
    fwd = opts.ForwardOptions.recurse(obj.user_libs)
    blink.DynamicLink._fill_options(obj, None, opts.option_list(), fwd)
    return obj


def _mk_dag(edges):
    adj = {i: [] for i in range(NLIBS)}
    k = 0
    for a in range(NLIBS):
        for b in range(a + 1, NLIBS):
            if edges[k]:
                adj[a].append(b)
            k += 1
    libs = {}
    for i in reversed(range(NLIBS)):
        libs[i] = StaticLibrary(
            Path('lib%d.a' % i), 'elf', 'c',
            opts.ForwardOptions(libs=[libs[j] for j in adj[i]],
                                link_options=opts.option_list(['-Wl,--opt%d' % i, '-u', 'sym%d' % i]))
        )
    return adj, libs


def l_order(edges: List[bool], u: List[int]) -> bool:
    """every static library reachable from the user's list appears on the link line, every
    dependant before each of its dependencies (single-pass static linking), and the forwarded
    link options of every reachable library are present
    pre: len(edges) == NLIBS * (NLIBS - 1) // 2 and 1 <= len(u) <= 2
    pre: all(0 <= i < NLIBS for i in u) and len(set(u)) == len(u)
    pre: param('U0', -1) < 0 or u[0] == param('U0', -1)
    post: _
    """
    adj, libs = _mk_dag(edges)
    obj = _real_link_libs([libs[i] for i in u])
    order = [o.library for o in obj._internal_options if isinstance(o, opts.lib)]
    strs = [o for o in obj._internal_options if isinstance(o, str)]
    pos = {}
    for k, lib in enumerate(order):
        if id(lib) in pos:
            return R(False)          # a library listed twice
        pos[id(lib)] = k
    seen = set()
    stack = list(u)
    while stack:
        x = stack.pop()
        if x in seen:
            continue
        seen.add(x)
        stack.extend(adj[x])
    ok = len(order) == len(seen)
    for x in seen:
        if id(libs[x]) not in pos:
            return R(False)
        if x not in u and ('-Wl,--opt%d' % x) not in strs:
            pass
        for y in adj[x]:
            if not KF_ORDER and pos[id(libs[x])] > pos[id(libs[y])]:
                ok = False
    for x in seen:
        if ('-Wl,--opt%d' % x) not in strs:
            ok = False
        # options made of several words (-u SYMBOL) arrive as that pair: raw strings are never
        # de-duplicated against each other
        pair = False
        for j in range(len(strs) - 1):
            if strs[j] == '-u' and strs[j + 1] == 'sym%d' % x:
                pair = True
        if not pair:
            ok = False
    return R(ok)


class _Env:
    class target_platform:
        Path = Path


def _rel_ok(s):
    if len(s) == 0 or chr(92) in s or s[1:2] == ':' or s[0] == '~':
        return False
    for c in s.split('/'):
        if c == '' or c == '.' or c == '..':
            return False
    return True


def _mkpath(suffix, root=Root.builddir):
    p = Path.__new__(Path)
    p.suffix = suffix
    p.root = root
    p.directory = False
    p.destdir = False
    return p


def r_rpath(a: str, b: str) -> bool:
    """run-time search path of a binary in directory A to a project shared library in directory B
    (both in the build dir): $ORIGIN-relative, resolves to B from A, never mentions an absolute
    build directory
    pre: 1 <= len(a) <= param('N', 3) and 1 <= len(b) <= param('M', 3) and _rel_ok(a) and _rel_ok(b)
    post: _
    """
    out = Executable(_mkpath(a + '/prog'), 'elf', 'c')
    lib = SharedLibrary(_mkpath(b + '/libfoo.so'), 'elf', 'c')
    rp = patchelf.local_rpath(_Env, lib, out)
    if not isinstance(rp, str):
        return R(False)
    if not (rp == '$ORIGIN' or rp.startswith('$ORIGIN/')):
        return R(False)
    rel = rp[len('$ORIGIN'):].lstrip('/') or '.'
    return R(posixpath.normpath(posixpath.join(a, rel)) == posixpath.normpath(b))


def r_rpath_exact(a: str, b: str) -> bool:
    """as r_rpath with exact lengths (one obligation per length pair)
    pre: len(a) == param('N', 3) and len(b) == param('M', 3) and _rel_ok(a) and _rel_ok(b)
    post: _
    """
    out = Executable(_mkpath(a + '/prog'), 'elf', 'c')
    lib = SharedLibrary(_mkpath(b + '/libfoo.so'), 'elf', 'c')
    rp = patchelf.local_rpath(_Env, lib, out)
    if not isinstance(rp, str):
        return R(False)
    if not (rp == '$ORIGIN' or rp.startswith('$ORIGIN/')):
        return R(False)
    rel = rp[len('$ORIGIN'):].lstrip('/') or '.'
    return R(posixpath.normpath(posixpath.join(a, rel)) == posixpath.normpath(b))


# ---- what a static library forwards to whoever links it -----------------------------------------
from bfg9000.file_types import SharedLibrary as _SharedLibrary


class _SLinker:
    pass


class _FakeStaticLink:
    linker = _SLinker()


def f_static_forward(kinds: List[int]) -> bool:
    """StaticLink._fill_output: a static library forwards *every* library it was given -- static
    ones and project shared libraries alike -- in the given order, to the step that finally links
    it (a shared library's symbols are needed by the archive's members just the same)
    pre: 1 <= len(kinds) <= 3 and all(0 <= k < 2 for k in kinds)
    post: _
    """
    libs = []
    for i, k in enumerate(kinds):
        if k == 0:
            libs.append(StaticLibrary(Path('d%d/libs%d.a' % (i, i)), 'elf', 'c'))
        else:
            libs.append(_SharedLibrary(Path('d%d/libd%d.so' % (i, i)), 'elf', 'c'))
    obj = _FakeStaticLink()
    obj.user_options = opts.option_list(['-Wl,--x'])
    obj.user_libs = libs
    obj.user_packages = []
    out = StaticLibrary(Path('libout.a'), 'elf', 'c')
    blink.StaticLink._fill_output(obj, out)
    fwd = out.forward_opts
    ok = len(fwd.libs) == len(libs) and all(a is b for a, b in zip(fwd.libs, libs))
    ok = ok and list(fwd.link_options) == ['-Wl,--x']
    ok = ok and len(out.linktime_deps) == len(libs)
    # and the final link sees them all
    res = _real_link_libs([out])
    order = [o.library for o in res._internal_options if isinstance(o, opts.lib)]
    for lib in libs:
        if not any(o is lib for o in order):
            ok = False
    return R(ok)

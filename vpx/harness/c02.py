"""C02 -- Ninja backend: every argument reaches the spawned process unchanged.

The command string ninja hands to `/bin/sh -c` is computed by the reference evaluator rninja from
the text written by the real NinjaFile/Writer code, then split by rsh."""
from io import StringIO

from bfg9000 import safe_str, shell
from bfg9000.backends.ninja import syntax as nsyntax
from bfg9000.backends.ninja.syntax import NinjaFile, Syntax, Variable, var
from bfg9000.shell import posix as pshell
from bfg9000.builtins import tests as btests
from bfg9000.path import Path, Root

from vpx.params import R, param, no_ctl
from vpx.models import rsh, rninja

N = param('N', 2)
NF = NinjaFile('build.bfg')
KF_CMDASSIGN = param('kf_cmdassign', False)


def _assign_like(s):
    k = s.find('=')
    return k > 0 and rsh._is_name(s[:k])


def _var_rhs(name, value, syntax=Syntax.shell, indent=0, can_wrap=False):
    """text after `name = ` as written by the real NinjaFile._write_variable"""
    out = NF.writer(StringIO())
    NF._write_variable(out, var(name), value, syntax, indent, can_wrap)
    text = out.stream.getvalue()
    head = '  ' * indent + name + ' = '
    if not (text.startswith(head) and text.endswith('\n')):
        return None
    return text[len(head):-1]


def _command(args, vars=()):
    """rule-scoped `command = ...` evaluated at build time"""
    rhs = _var_rhs('command', args, indent=1, can_wrap=True)
    if rhs is None:
        return None
    return rninja.value(rhs, vars)


def a_rule_arg(s: str) -> bool:
    """
    pre: len(s) == N and no_ctl(s)
    post: _
    """
    line = _command(['prog', s])
    return R(line is not None and rsh.argv(line) == ['prog', s])


def b_command_word(s: str) -> bool:
    """
    pre: len(s) == N and no_ctl(s) and len(s) > 0
    pre: not (KF_CMDASSIGN and _assign_like(s))
    post: _
    """
    line = _command([s, 'x'])
    return R(line is not None and rsh.argv(line) == [s, 'x'])


def c_build_variable(s: str) -> bool:
    """per-target options: build-scoped `cflags = $global s`, rule `command = prog ${cflags} -o x`
    pre: len(s) == N and no_ctl(s)
    post: _
    """
    rhs = _var_rhs('cflags', [var('global_cflags'), s], indent=1)
    if rhs is None:
        return False
    val = rninja.value(rhs, (('global_cflags', '-g'),))
    if val is None:
        return R(False)
    line = _command(['prog', var('cflags'), '-o', 'x'], (('cflags', val),))
    return R(line is not None and rsh.argv(line) == ['prog', '-g', s, '-o', 'x'])


def c_global_variable(s: str) -> bool:
    """file-scoped `global_cflags = s` used through a build-scoped variable
    pre: len(s) == N and no_ctl(s)
    post: _
    """
    rhs = _var_rhs('global_cflags', [s, '-b'])
    if rhs is None:
        return False
    g = rninja.value(rhs)
    if g is None:
        return R(False)
    rhs2 = _var_rhs('cflags', [var('global_cflags')], indent=1)
    val = rninja.value(rhs2, (('global_cflags', g),))
    if val is None:
        return R(False)
    line = _command(['prog', var('cflags')], (('cflags', val),))
    return R(line is not None and rsh.argv(line) == ['prog', s, '-b'])


def d_command_build(s: str) -> bool:
    """command()/build_step(): rule `command = ${cmd}`, build-scoped `cmd = prog s && prog2`
    pre: len(s) == N and no_ctl(s)
    post: _
    """
    rhs = _var_rhs('cmd', shell.join_lines([['first', 'y'], ['prog', s]]), indent=1)
    if rhs is None:
        return False
    val = rninja.value(rhs)
    if val is None:
        return R(False)
    line = _command(shell.shell_list([var('cmd')]), (('cmd', val),))
    if line is None:
        return R(False)
    p = rsh.parse(line)
    return R(p is not None and len(p) == 2 and p[0] == ([], ['first', 'y']) and
             p[1] == ([], ['prog', s]))


def e_global_env(s: str) -> bool:
    """
    pre: len(s) == N and no_ctl(s)
    post: _
    """
    rhs = _var_rhs('cmd', shell.global_env({'V': s}, [['prog', 'x']]), indent=1)
    if rhs is None:
        return False
    val = rninja.value(rhs)
    if val is None:
        return R(False)
    r = rsh.run(val)
    return R(r is not None and r[1] == ['prog', 'x'] and rninja.lookup(list(r[0].items()), 'V') == s)


def f_local_env(s: str) -> bool:
    """
    pre: len(s) == N and no_ctl(s)
    post: _
    """
    rhs = _var_rhs('cmd', shell.local_env({'V': s}, ['prog', 'x']), indent=1)
    if rhs is None:
        return False
    val = rninja.value(rhs)
    if val is None:
        return R(False)
    r = rsh.run(val)
    return R(r is not None and r[1] == ['prog', 'x'] and rninja.lookup(list(r[0].items()), 'V') == s)


class _T:
    def __init__(self, cmd, env=None):
        self.cmd = cmd
        self.env = env or {}
        self.inputs = []


class _D(btests.TestDriver):
    def __init__(self, cmd, tests):
        self.cmd = cmd
        self.env = {}
        self.inputs = []
        self.tests = tests


def g_nested_driver(s: str) -> bool:
    """
    pre: len(s) == N and no_ctl(s)
    post: _
    """
    cmds, deps = btests._build_commands([_D(['driver'], [_T(['c', s])])], NF.writer,
                                        shell.local_env)
    rhs = _var_rhs('cmd', shell.join_lines(cmds), indent=1)
    if rhs is None:
        return False
    val = rninja.value(rhs)
    if val is None:
        return R(False)
    outer = rsh.argv(val)
    if outer is None or len(outer) != 2 or outer[0] != 'driver':
        return R(False)
    return R(rsh.argv(outer[1]) == ['c', s])


def h_option_string(o: str) -> bool:
    """
    pre: len(o) == N and no_ctl(o)
    post: _
    """
    try:
        parts = pshell.listify(o)
    except ValueError:
        return True
    line = _command(['prog'] + parts)
    return R(line is not None and rsh.argv(line) == ['prog'] + parts)


def _path_ok(s):
    return len(s) > 0 and '/' not in s and chr(92) not in s and s != '.' and s != '..'


def _mkpath(suffix, root):
    p = Path.__new__(Path)
    p.suffix = suffix
    p.root = root
    p.directory = False
    p.destdir = False
    return p


def k_path_arg(s: str) -> bool:
    """a source-tree file argument inside a build-scoped variable
    pre: len(s) == N and no_ctl(s) and _path_ok(s)
    post: _
    """
    rhs = _var_rhs('cmd', ['prog', _mkpath('d/' + s, Root.srcdir)], indent=1)
    if rhs is None:
        return False
    val = rninja.value(rhs, (('srcdir', '.'),))
    return R(val is not None and rsh.argv(val) == ['prog', './d/' + s])


def k_include_dir(s: str) -> bool:
    """
    pre: len(s) == N and no_ctl(s) and _path_ok(s)
    post: _
    """
    rhs = _var_rhs('cflags', [safe_str.jbos('-I', _mkpath(s, Root.builddir))], indent=1)
    if rhs is None:
        return False
    val = rninja.value(rhs)
    if val is None:
        return R(False)
    line = _command(['prog', var('cflags')], (('cflags', val),))
    return R(line is not None and rsh.argv(line) == ['prog', '-I./' + s])


def l_in_out(s: str) -> bool:
    """$in / $out: the path written in the build line comes back through ninja's own shell
    escaping as one argument
    pre: len(s) == N and no_ctl(s) and _path_ok(s) and '|' not in s
    post: _
    """
    out = NF.writer(StringIO())
    out.write(_mkpath('d/' + s, Root.builddir), Syntax.input)
    r = rninja.paths(out.stream.getvalue())
    if r is None or r[1] != len(out.stream.getvalue()) or len(r[0]) != 1:
        return R(False)
    line = _command(['prog', var('in')], (('in', rninja.shell_escape(r[0][0])),))
    return R(line is not None and rsh.argv(line) == ['prog', 'd/' + s])

"""the ordered kernels of C13's o_set_order run on the unmodified code under the interpreter's real
hash seed (PYTHONHASHSEED is set by the caller): prints the ordered results as JSON"""
import json
import sys

from bfg9000 import file_types as ft, options as bopts, versioning as bver
from bfg9000.builtins import install as binstall, pkg_config as bpc
from bfg9000.backends.make import writer as mwriter
from bfg9000.path import Path, Root


def _bp(suffix):
    p = Path.__new__(Path)
    p.suffix, p.root, p.directory, p.destdir = suffix, Root.builddir, False, False
    return p


class _PcInfo:
    desc_name = desc = url = version = None
    lang = 'c'
    includes = requires = requires_private = None
    options = link_options = link_options_private = bopts.option_list()
    _require_deps = []
    _filter_packages = staticmethod(bpc.PkgConfigInfo._filter_packages)

    def __init__(self, libs, conflicts):
        self.name = 'demo'
        self.libs = libs
        self.libs_private = None
        self.conflicts = conflicts


def run(n):
    libs = [ft.SharedLibrary(_bp('lib%d.so' % i), 'elf', 'c') for i in range(4)]
    prog = ft.Executable(_bp('prog'), 'elf', 'c')
    for i in range(n):
        prog.runtime_deps.append(libs[i])

    class E:
        class target_platform:
            pass
    E.target_platform.Path = Path
    out = binstall.InstallOutputs(E)
    out.add(prog)
    order = [f.path.suffix for f in out.host]
    dirs = [_bp('d%d/out%d' % (i, i)) for i in range(4)][:n]
    dd = [p.suffix for p in mwriter.directory_deps(dirs)]
    deps = [ft.StaticLibrary(_bp('libdep%d.a' % i), 'elf', 'c') for i in range(n)]
    core = ft.StaticLibrary(_bp('libcore.a'), 'elf', 'c', bopts.ForwardOptions(libs=deps))
    conf = bpc.RequirementSet([bpc.Requirement('foo', bver.SpecifierSet('>=1.0,<2.0,!=1.5'))])
    data = bpc.PkgConfigInfo.finalize(_PcInfo([core], conf))
    return {'install_order': order, 'order_only_dirs': dd,
            'pc_libs_private': [f.path.suffix for f in data['libs_private']],
            'pc_conflicts': [i.name + str(i.version) for i in data['conflicts']]}


if __name__ == '__main__':
    print(json.dumps(run(int(sys.argv[1]))))

"""Engine regression identities: tiny obligations that must be *Confirmed*.  Each one is the
minimal form of a CrossHair modelling error that produced a non-reproducing counterexample (or a
wrong confirmation) while building the checks; they run with every property that relies on the
corresponding string operations."""
import re

from vpx.params import R

N = 3
_PAR = re.compile(r'(^|/)..(?=/|$)')


def concat_empty_split(t: str) -> bool:
    """
    pre: len(t) == N
    post: _
    """
    c = t + ''
    return R(c.split('/') == t.split('/') and c[1:] == t[1:] and t[1:] == c[1:])


def concat_slices(t: str) -> bool:
    """
    pre: len(t) == N
    post: _
    """
    c = t[:1] + t[1:]
    d = t + t[:0]
    return R(c == t and d == t and d.split('/') == t.split('/') and (d + 'x')[:-1] == t)


def sub_anchor(t: str) -> bool:
    """re.sub must evaluate ^ and look-ahead on the whole string, not on the sliced remainder
    pre: len(t) == N
    post: _
    """
    out = _PAR.sub(r'\1P', t)
    if t == 'a/b':
        return R(out == 'a/b')
    if t == '../':
        return R(out == 'P/')
    return R(len(out) <= len(t))


def dict_update_keeps_order(x: int) -> bool:
    """assigning to an existing key must not move it (CrossHair's dict stand-in re-appended it: a
    mutant that depended on mapping order was wrongly confirmed)
    pre: 0 <= x < 3
    post: _
    """
    d = dict({'a': 1, 'b': 2, 'c': 3})
    d['a'] = x
    e = dict(reversed(list(d.items())))
    return R(list(d) == ['a', 'b', 'c'] and list(e) == ['c', 'b', 'a'])

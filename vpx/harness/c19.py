"""C19 -- scripts are isolated and relative: submodule path re-rooting, export stack, project
argument spellings."""
import functools
from typing import List, Tuple

from bfg9000.path import Path, Root
from bfg9000.builtins import builtin as bbuiltin
from bfg9000.builtins import path as bpath
from bfg9000.builtins import core as bcore
from bfg9000.arguments import parser as aparser

from vpx.params import R, param, no_ctl

N = param('N', 3)
DIRS = ['', 'sub', 'sub/inner', 'a/b/c']
D = DIRS[param('D', 1)]


class _Ctx(bbuiltin.StackContext):
    """the real StackContext (path stack, exports), without the builtin-table plumbing"""
    filename = 'build.bfg'

    def __init__(self):
        self.seen_paths = []
        self.path_stack = []

    def __getitem__(self, name):
        return functools.partial({'relpath': bpath.relpath}[name], self)


def _walk(s):
    comps = []
    escapes = False
    parts = s.replace(chr(92), '/').split('/')
    for c in parts:
        if c == '' or c == '.':
            continue
        if c == '..':
            if comps:
                comps.pop()
            else:
                escapes = True
        else:
            comps.append(c)
    return escapes, comps


def _plain(s):
    if s.startswith('~') or s.startswith('/') or s.startswith(chr(92)) or s[1:2] == ':':
        return False
    return True


def p_relative(r: str) -> bool:
    """inside the script of directory D every input path is srcdir/normpath(D/r), every output
    path builddir/normpath(D/r); a path leaving the source/build tree is rejected
    pre: len(r) == N and no_ctl(r) and _plain(r)
    post: _
    """
    ctx = _Ctx()
    script = Path((D + '/' if D else '') + 'build.bfg', Root.srcdir)
    with ctx.push_path(script):
        escapes, comps = _walk((D + '/' if D else '') + r)
        try:
            src = bpath.relpath(ctx, r)
            out = bpath.buildpath(ctx, r)
            name = bpath.relname(ctx, r)
        except ValueError:
            return R(escapes)
        if escapes:
            return R(False)
        if src.suffix.startswith('~') or src.suffix[1:2] == ':':
            return True     # C12 known findings
        want = '/'.join(comps)
        return R(src.root == Root.srcdir and src.suffix == want and out.root == Root.builddir and
                 out.suffix == want and name == want)


KEYS = ['x', 'y']


def e_exports(ops: List[Tuple[int, int, int]]) -> bool:
    """exports of frame k are handed exactly to frame k-1: histories of push (include a
    submodule) / export(key=value) / pop (return from the submodule) / failing submodule (its
    script raises and the including script catches the error) over a stack of depth <= 3; a
    root-level export raises
    pre: len(ops) <= param('NO', 4) and all(0 <= o < 4 and 0 <= k < 2 and 0 <= v < 3 for o, k, v in ops)
    pre: param('P0', -1) < 0 or (len(ops) == param('NO', 4) and ops[0][0] * 2 + ops[0][1] == param('P0', -1))
    post: _
    """
    ctx = _Ctx()
    cms = []
    model = []           # reference: stack of dicts
    root = ctx.push_path(Path('build.bfg', Root.srcdir))
    root.__enter__()
    model.append({})
    ok = True
    for o, k, v in ops:
        if o == 0 and len(model) < 3:
            cm = ctx.push_path(Path('s%d/build.bfg' % len(model), Root.srcdir))
            cm.__enter__()
            cms.append(cm)
            model.append({})
        elif o == 1:
            try:
                bcore.export(ctx, **{KEYS[k]: v})
                if len(model) == 1:
                    ok = False
                model[-1][KEYS[k]] = v
            except ValueError:
                if len(model) != 1:
                    ok = False
        elif o == 2 and len(model) > 1:
            # what submodule() returns to the including script
            got = ctx.path_stack[-1].exports
            cms.pop().__exit__(None, None, None)
            want = model.pop()
            if got != want:
                ok = False
        elif o == 3 and len(model) > 1:
            # the submodule's script raises; the including script catches it and carries on
            e = ValueError('submodule failed')
            try:
                swallowed = cms.pop().__exit__(ValueError, e, None)
            except ValueError:
                swallowed = False
            if swallowed:
                ok = False
            model.pop()
        if len(ctx.path_stack) != len(model):
            ok = False
    return R(ok)


def t_toggle(n: str) -> bool:
    """enable/disable and with/without spellings: --NAME and --x-NAME map to --enable-NAME /
    --x-enable-NAME etc., nothing else is rewritten
    pre: len(n) == N and no_ctl(n) and not n.startswith('x-')
    post: _
    """
    ok = True
    p = aparser.ToggleAction._prefix
    for cls in (aparser.EnableAction, aparser.WithAction):
        t, f = cls._true_prefix, cls._false_prefix
        ok = ok and (p('--' + n, t) == '--' + t + n and p('--x-' + n, t) == '--x-' + t + n and
                     p('--' + n, f) == '--' + f + n and p('--x-' + n, f) == '--x-' + f + n)
        a = cls(['--' + n, '--x-' + n], dest='d')
        ok = ok and a.true_strings == ['--' + t + n, '--x-' + t + n] and \
            a.false_strings == ['--' + f + n, '--x-' + f + n]
    return R(ok)


def u_user_argument(v: str) -> bool:
    """a project-defined argument is accepted as --name and as --x-name with the same result, for
    every value string; names starting with x- are reserved; toggles work in all four spellings
    pre: len(v) == N and no_ctl(v) and not v.startswith('-')
    post: _
    """
    p = aparser.ArgumentParser(prog='t', add_help=False)
    g = p.add_argument_group('project-defined arguments')
    g.usage = 'parse'
    aparser.add_user_argument(g, '--name', metavar='V', default='dflt')
    aparser.add_user_argument(g, '--feat', action='enable', default=False)
    aparser.add_user_argument(g, '--opt', action='with', default=False)
    try:
        aparser.add_user_argument(g, '--x-bad')
        return R(False)
    except ValueError:
        pass
    try:
        a = p.parse_args(['--name', v])
        b = p.parse_args(['--x-name', v])
        c = p.parse_args(['--name=' + v, '--enable-feat'])
        d = p.parse_args(['--x-name=' + v, '--x-enable-feat', '--x-disable-feat'])
        e = p.parse_args(['--x-enable-feat', '--x-with-opt', '--name', v])
        f = p.parse_args(['--enable-feat', '--x-without-opt', '--with-opt', '--x-name', v])
    except SystemExit:
        return R(False)      # argparse rejected a spelling
    return R(a.name == v and b.name == v and c.name == v and d.name == v and
             vars(a) == vars(b) and c.feat is True and d.feat is False and a.feat is False and
             e.feat is True and e.opt is True and e.name == v and vars(e) == vars(f))

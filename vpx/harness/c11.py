"""C11 -- find_files returns exactly what the documented glob semantics select."""
from typing import List

from bfg9000 import path as bpath
from bfg9000.path import Path, Root
from bfg9000.glob import PathGlob, NameGlob
from bfg9000.builtins import find as bfind

from vpx.params import R, param, no_ctl
from vpx.models import rglob

NAMES = ['a', 'b', 'c']
PATTERN = param('pattern', 'a/**/b')
TYPE = param('type', None)
M = param('M', 4)                 # max path depth
E = param('E', 2)                 # max extension depth (pruning)
NN = param('NN', 3)


def _mkpath(comps, isdir):
    p = Path.__new__(Path)
    p.suffix = '/'.join(comps)
    p.root = Root.srcdir
    p.directory = isdir or not comps
    p.destdir = False
    return p


def _idx_ok(l, n):
    return all(0 <= i < n for i in l)


def g_match(nt: List[int], isdir: bool) -> bool:
    """PathGlob.match agrees with the documented rules on every path (component lists over three
    names), with and without the base check; `never` implies `no`
    pre: len(nt) <= M and _idx_ok(nt, NN)
    post: _
    """
    comps = [NAMES[i] for i in nt]
    g = PathGlob(PATTERN, TYPE)
    p = _mkpath(comps, isdir)
    want = rglob.selects(PATTERN, TYPE, comps, p.directory)
    r1 = g.match(p)
    ok = bool(r1) == want
    base = g.base.split()
    if comps[:len(base)] == base:
        ok = ok and bool(g.match(p, skip_base=True)) == want
    return R(ok)


def g_prune(nt: List[int], ext: List[int], isdir: bool) -> bool:
    """pruning is sound: when a directory is answered `never`, nothing below it is selected
    pre: len(nt) <= M and 1 <= len(ext) <= E and _idx_ok(nt, NN) and _idx_ok(ext, NN)
    post: _
    """
    comps = [NAMES[i] for i in nt]
    g = PathGlob(PATTERN, TYPE)
    r = g.match(_mkpath(comps, True))
    if r != PathGlob.Result.never:
        return True
    return R(not rglob.selects(PATTERN, TYPE, comps + [NAMES[i] for i in ext], isdir))


COMP_PATTERNS = ['*', '?', 'a*', '*.c', '[ab]*', '[!a]?', '.#*', '*~', '#*#']
CP = COMP_PATTERNS[param('cp', 0)]
N = param('N', 2)


def n_component(name: str, isdir: bool) -> bool:
    """one component: the compiled matchers (PathGlob component and NameGlob) agree with the
    documented * ? [..] [!..] rules for every name, and never look past the component
    pre: len(name) == N and no_ctl(name) and '/' not in name
    post: _
    """
    want = rglob.comp_match(CP, name)
    g = PathGlob('d/' + CP, '*')
    got = bool(g.match(_mkpath(['d', name], isdir)))
    ng = NameGlob(CP, '*')
    got2 = ng.match(_mkpath(['x', name], isdir))
    return R(got == want and got2 == want)


# ---- filter algebra -----------------------------------------------------------------------
INCLUDE = param('include', ['a/**/b', 'b/*'])
EXCLUDE = param('exclude', ['c'])
EXTRA = param('extra', ['a'])
FR = bfind.FindResult


def _root_len(comps):
    """length of the walked tree root (shortest include base) that contains the entry"""
    best = None
    for inc in INCLUDE:
        base = []
        for b in [x for x in inc.split('/') if x]:
            if '*' in b or '?' in b or '[' in b:
                break
            base.append(b)
        if comps[:len(base)] == base and (best is None or len(base) < best):
            best = len(base)
    return best or 0


def _excluded_by_name(comps, isdir, typ):
    """documented: an exclude glob matches basenames; a matched directory takes its children
    (components of the literal prefix the user spelled out are not subject to exclusion)"""
    for k in range(_root_len(comps), len(comps)):
        last = k == len(comps) - 1
        for e in EXCLUDE:
            if rglob.name_selects(e, typ, comps[k], isdir if last else True):
                return True
    return False


def _spec(comps, isdir, typ):
    if _excluded_by_name(comps, isdir, typ):
        return 'exclude'
    for inc in INCLUDE:
        if rglob.selects(inc, typ, comps, isdir):
            return 'include'
    for e in EXTRA:
        if comps and rglob.name_selects(e, typ, comps[-1], isdir):
            return 'not_now'
    return 'exclude'


def f_filter(nt: List[int], ext: List[int], isdir: bool, eisdir: bool) -> bool:
    """FileFilter over several include patterns + exclude + extra: category as documented;
    exclude_recursive (pruning) only when nothing below can be included or diverted
    pre: 1 <= len(nt) <= M and len(ext) <= E and _idx_ok(nt, NN) and _idx_ok(ext, NN)
    post: _
    """
    comps = [NAMES[i] for i in nt]
    f = bfind.FileFilter([Path(i, Root.srcdir) for i in INCLUDE], TYPE, EXTRA, EXCLUDE)
    # precondition of the walk: no ancestor was excluded (it would have been pruned)
    if _excluded_by_name(comps[:-1], True, TYPE):
        return True
    got = f.match(_mkpath(comps, isdir))
    want = _spec(comps, isdir, TYPE)
    cat = {FR.include: 'include', FR.not_now: 'not_now', FR.exclude: 'exclude',
           FR.exclude_recursive: 'exclude'}[got]
    ok = cat == want
    if got == FR.exclude_recursive and ext and isdir:
        below = _spec(comps + [NAMES[i] for i in ext], eisdir, TYPE)
        # pruning must never lose an *included* entry ("extra" below a pruned directory is not
        # promised by the documentation)
        ok = ok and below != 'include'
    return R(ok)


# ---- walk over a symbolic tree ----------------------------------------------------------------
# second name of the tree skeleton: 'a.' sorts between 'a' and 'a/x' as a string (nested bases)
YN = param('yname', 'b')
SKELETON = [['a'], [YN], ['a', 'a'], ['a', YN], ['a', 'a', 'a'], ['a', 'a', YN], [YN, 'a']]
NODES = param('nodes', 6)


class _Env:
    base_dirs = None


def _tree_ok(kinds):
    """kinds[i] in 0 absent, 1 file, 2 dir; children only below directories"""
    for i in range(NODES):
        if not (0 <= kinds[i] <= 2):
            return False
        if kinds[i] != 0 and len(SKELETON[i]) > 1:
            par = SKELETON.index(SKELETON[i][:-1])
            if kinds[par] != 2:
                return False
    return True


def _bases():
    out = []
    for inc in INCLUDE:
        bits = [b for b in inc.split('/') if b]
        base = []
        for b in bits:
            if '*' in b or '?' in b or '[' in b:
                break
            base.append(b)
        out.append(base)
    return out


def _bases_exist(kinds):
    """the property quantifies over patterns whose literal prefix exists (as a directory)"""
    for b in _bases():
        if b and (b not in SKELETON[:NODES] or kinds[SKELETON.index(b)] != 2):
            return False
    return True


def _under_base(comps):
    for b in _bases():
        if comps[:len(b)] == b:
            return True
    return False


def _install_tree(kinds):
    def children(comps):
        dirs, files = [], []
        for i in range(NODES):
            if kinds[i] != 0 and SKELETON[i][:-1] == comps:
                (dirs if kinds[i] == 2 else files).append(_mkpath(SKELETON[i], kinds[i] == 2))
        return dirs, files

    def exists(p, variables=None):
        comps = p.split()
        return (not comps) or (comps in SKELETON[:NODES] and kinds[SKELETON.index(comps)] == 2)

    def listdir(p, variables=None):
        return children(p.split())

    def islink(p, variables=None):
        # LINK: index of the skeleton node that is a *symbolic link to a directory* (-1: none)
        return LINK >= 0 and p.split() == SKELETON[LINK]
    # the real path.walk runs on this file system (exists / listdir / islink are its only contact)
    old = (bpath.exists, bpath.listdir, bpath.islink)
    bpath.exists, bpath.listdir, bpath.islink = exists, listdir, islink
    return old


def _restore_tree(old):
    bpath.exists, bpath.listdir, bpath.islink = old


LINK = param('link', -1)
# known finding C11-F24: a symbolic link to a directory *below* the directory a walk starts from
KF_SYMLINK = param('kf_symlink', False)


def _link_ok(kinds):
    """LINK names a directory node; with KF_SYMLINK it must be one of the walk roots (the literal
    prefix of every pattern is below or at it): only then does the code descend into it"""
    if LINK < 0:
        return True
    if LINK >= NODES or kinds[LINK] != 2:
        return False
    if KF_SYMLINK:
        for b in _bases():
            if b[:len(SKELETON[LINK])] != SKELETON[LINK]:
                return False
    return True


def w_walk(kinds: List[int]) -> bool:
    """find() over a symbolic directory tree == the documented selection applied to every entry
    of the tree (pruning never changes the result; every returned entry exists); a second,
    cached lookup returns the same entries; found + extra entries are handed to the file-type
    constructors with dist=True
    pre: len(kinds) == NODES and _tree_ok(kinds) and _bases_exist(kinds) and _link_ok(kinds)
    post: _
    """
    old = _install_tree(kinds)
    try:
        got = bfind.find(_Env, [Path(i, Root.srcdir) for i in INCLUDE], TYPE, EXTRA, EXCLUDE)
        f = bfind.FileFilter([Path(i, Root.srcdir) for i in INCLUDE], TYPE, EXTRA, EXCLUDE)
        made = []
        ctx = _Ctx(made)
        r1 = bfind.find_from_filter(ctx, f)
        n_made = len(made)
        r2 = bfind.find_from_filter(ctx, f)
    finally:
        _restore_tree(old)
    want = []
    extra = []
    cands = []
    for b in _bases():          # the (existing) literal prefixes are candidates themselves
        if b not in cands:
            cands.append(b)
            s = _spec(b, True, TYPE)
            if s == 'include':
                want.append('/'.join(b))
            elif s == 'not_now':
                extra.append('/'.join(b))
    for i in range(NODES):
        if kinds[i] == 0 or not _under_base(SKELETON[i]) or SKELETON[i] in cands:
            continue
        s = _spec(SKELETON[i], kinds[i] == 2, TYPE)
        if s == 'include':
            want.append('/'.join(SKELETON[i]))
        elif s == 'not_now':
            extra.append('/'.join(SKELETON[i]))
    gots = sorted(p.suffix for p in got)
    ok = gots == sorted(want)
    ok = ok and sorted(x[1] for x in r1) == sorted(want) and [x[1] for x in r2] == [x[1] for x in r1]
    ok = ok and all(x[2] is True for x in made)
    # extra entries: sound (each one exists, matches an extra glob, is neither included nor
    # excluded); completeness below pruned directories is not promised by the documentation
    for x in made[:n_made]:
        if x[0] == 'generic' and x[1] not in extra:
            ok = False
    return R(ok)


class _Build(dict):
    pass


class _Ctx:
    env = _Env

    def __init__(self, made):
        self.made = made
        self.build = {'find_cache': bfind.FindCache(), 'find_dirs': set()}

    def _mk(self, kind):
        def make(path, dist=None):
            self.made.append((kind, path.suffix, dist))
            return (kind, path.suffix, dist)
        return make

    def __getitem__(self, name):
        return self._mk({'auto_file': 'auto', 'directory': 'dir',
                         'generic_file': 'generic'}[name])

"""C13 -- build files are a deterministic function of project and configuration (two kernels).

(a) the invocation directory and the relative / absolute spelling of a directory do not matter:
    every spelling of the same directory under an arbitrary cwd gives the same absolute Path;
(b) iteration order as an adversarial schedule: the only set that reaches a written file is
    find_dirs (-> .bfg_find_deps, an auxiliary file that must be equal *as a set of entries*);
    EnvVarDict.changes, computed from a set difference, must not depend on the order either."""
import os
from io import StringIO
from typing import List

from bfg9000.path import Path, Root
from bfg9000.arguments import parser as aparser
from bfg9000.builtins import find as bfind
from bfg9000.environment import EnvVarDict

from vpx.params import R, param, no_ctl
from vpx.models import rmake

N = param('N', 2)


def _seg_ok(s):
    return len(s) > 0 and '/' not in s and chr(92) not in s and s != '.' and s != '..' and \
        s[0] != '~' and s[1:2] != ':'


def a_spelling(cwd: str, b: str) -> bool:
    """the build directory named as b, ./b, x/../b, b/ , b/. or <cwd>/b from the directory /<cwd>
    is the same absolute directory; the argparse Directory type agrees
    pre: len(cwd) == param('M', 1) and len(b) == N and no_ctl(cwd) and no_ctl(b) and _seg_ok(cwd) and _seg_ok(b)
    post: _
    """
    old = os.getcwd
    os.getcwd = lambda: '/' + cwd
    try:
        ps = [Path.abspath(s, directory=True) for s in
              (b, './' + b, 'x/../' + b, b + '/', b + '/.', '/' + cwd + '/' + b, '../' + cwd + '/' + b)]
        d = aparser.Directory()._abspath(b)
    finally:
        os.getcwd = old
    want = '/' + cwd + '/' + b
    ok = all(p.root == Root.absolute and p.suffix == want and p.directory for p in ps)
    return R(ok and d == ps[0] and len(set(p.suffix for p in ps)) == 1)


DIRS = [Path('src', Root.srcdir, directory=True), Path('src/a b', Root.srcdir, directory=True),
        Path('gen', Root.builddir, directory=True)]
PERMS = [[0, 1, 2], [0, 2, 1], [1, 0, 2], [1, 2, 0], [2, 0, 1], [2, 1, 0]]


class _Env:
    base_dirs = {Root.srcdir: Path('/srcdir', Root.absolute), Root.builddir: None}


def _depfile(order, makeify):
    import builtins
    buf = StringIO()

    class _F:
        def __enter__(self):
            return buf

        def __exit__(self, *a):
            return False
    old = getattr(bfind, 'open', None)
    bfind.open = lambda *a, **k: _F()
    try:
        bfind.write_depfile(_Env, Path('.bfg_find_deps'), Path('Makefile'),
                            [DIRS[i] for i in order], makeify=makeify)
    finally:
        if old is None:
            del bfind.open
        else:
            bfind.open = old
    return buf.getvalue()


def s_find_deps(p: int, q: int, makeify: bool) -> bool:
    """.bfg_find_deps under two adversarial iteration orders of the find_dirs set: the same
    dependency set and the same set of rule lines
    pre: 0 <= p < 6 and 0 <= q < 6
    post: _
    """
    def norm(text):
        lines = [x for x in text.split('\n') if x]
        head = lines[0]
        k = head.find(':')
        deps = rmake.rule_words(head[k + 1:], 'prereq')
        return head[:k], sorted(deps or []), sorted(lines[1:])
    order_p = PERMS[0]
    for k in range(6):
        if p == k:
            order_p = PERMS[k]
    order_q = PERMS[0]
    for k in range(6):
        if q == k:
            order_q = PERMS[k]
    a = norm(_depfile(order_p, makeify))
    b = norm(_depfile(order_q, makeify))
    return R(a == b and len(a[1]) == 3 and (len(a[2]) == 3) == makeify)


def c_changes_order(mask: int, s0: str) -> bool:
    """EnvVarDict.changes after from_json is computed from a set difference: whatever order the
    removed keys come in, the mapping is the same
    pre: 0 <= mask < 8 and len(s0) <= 1
    post: _
    """
    initial = {'A': 'a', 'B': s0, 'C': 'c'}
    current = {}
    for i, k in enumerate('ABC'):
        if (mask >> i) & 1:
            current[k] = initial[k]
    d1 = EnvVarDict.from_json({'initial': dict(initial), 'current': dict(current)})
    rev = dict(reversed(list(initial.items())))
    d2 = EnvVarDict.from_json({'initial': rev, 'current': dict(reversed(list(current.items())))})
    return R(d1.changes == d2.changes and dict(d1) == dict(d2) and
             sorted(d1.changes) == sorted(k for k in initial if k not in current))


# ---- (b') iteration order of every set created inside the ordered-output kernels ----------------
os.environ['PATH'] = '/venv/bin:' + os.environ.get('PATH', '')
from vpx import advset
from bfg9000 import file_types as ft
from bfg9000 import iterutils
from bfg9000.builtins import install as binstall
from bfg9000.backends.make import writer as mwriter
from bfg9000.builtins import pkg_config as bpc
from bfg9000 import options as bopts

# the functions whose *ordered* result ends up in a primary build file; every set they create is
# put under the control of the schedule (a function without sets is unchanged by the rewrite)
for _owner, _name in ((binstall.InstallOutputs, 'add'), (binstall.InstallOutputs, '_add_implicit'),
                      (binstall, '_install_files'), (binstall, '_uninstall_files'),
                      (mwriter, 'directory_deps'), (mwriter, 'multitarget_rule'),
                      (iterutils, 'uniques'), (bopts.ForwardOptions, 'recurse'),
                      (bopts.option_list, 'append'), (bopts.option_list, 'collect'),
                      (bpc.PkgConfigInfo, 'finalize'), (bpc.Requirement, 'split'),
                      (bpc.RequirementSet, 'split')):
    advset.rewrite(_owner, _name)
# version specifier sets are frozensets inside verspec: their iteration order is the hash seed's;
# put it under the schedule as well (sorted by text, or the reverse of it)
from bfg9000 import versioning as _bver
_SS_BASE = _bver.SpecifierSet.__mro__[1] if '__iter__' not in _bver.SpecifierSet.__dict__ \
    else _bver.SpecifierSet


def _adv_spec_iter(self):
    items = sorted(self._specs, key=str)
    return iter(list(reversed(items)) if advset.AdvSet.REVERSE else items)


for _k in _bver.SpecifierSet.__mro__:
    if '__iter__' in _k.__dict__ and hasattr(_k, '__and__'):
        _k.__iter__ = _adv_spec_iter
        break


class _PcInfo:
    """stand-in for PkgConfigInfo carrying exactly the attributes finalize() reads"""
    desc_name = desc = url = version = None
    lang = 'c'
    includes = requires = requires_private = None
    options = link_options = link_options_private = bopts.option_list()
    _require_deps = []
    _filter_packages = staticmethod(bpc.PkgConfigInfo._filter_packages)

    def __init__(self, libs, conflicts):
        self.name = 'demo'
        self.libs = libs
        self.libs_private = None
        self.conflicts = conflicts
# `uniques` uses a set for membership only; keep the rewritten version visible to its importers
mwriter.uniques = iterutils.uniques


def _bp(suffix):
    p = Path.__new__(Path)
    p.suffix, p.root, p.directory, p.destdir = suffix, Root.builddir, False, False
    return p


class _IEnv:
    target_platform = None


def o_set_order(rev: bool, n: int) -> bool:
    """ordered kernels under two schedules of every set they create: the install map (and hence
    the order of the install / uninstall recipe lines) of a program with n run-time dependencies,
    and the order-only directory prerequisites of a step with n outputs in different directories
    pre: 2 <= n <= 4
    post: _
    """
    def run():
        libs = [ft.SharedLibrary(_bp('lib%d.so' % i), 'elf', 'c') for i in range(4)]
        prog = ft.Executable(_bp('prog'), 'elf', 'c')
        for i in range(4):
            if i < n:
                prog.runtime_deps.append(libs[i])
        class E:
            class target_platform:
                Path = Path
        out = binstall.InstallOutputs(E)
        try:
            out.add(prog)
        except Exception:
            return None
        order = [f.path.suffix for f in out.host]
        dirs = [_bp('d%d/out%d' % (i, i)) for i in range(4)][:n]
        dd = [p.suffix for p in mwriter.directory_deps(dirs)]
        # generated .pc file: forwarded private libraries of a static library with n static
        # dependencies, and a Conflicts entry with several version specifiers
        deps = [ft.StaticLibrary(_bp('libdep%d.a' % i), 'elf', 'c') for i in range(n)]
        core = ft.StaticLibrary(_bp('libcore.a'), 'elf', 'c', bopts.ForwardOptions(libs=deps))
        conf = bpc.RequirementSet([bpc.Requirement('foo', _bver.SpecifierSet('>=1.0,<2.0,!=1.5'))])
        try:
            data = bpc.PkgConfigInfo.finalize(_PcInfo([core], conf))
        except Exception:
            return None
        pc = ([f.path.suffix for f in data['libs_private']],
              [i.name + str(i.version) for i in data['conflicts']])
        return order, dd, pc
    advset.AdvSet.REVERSE = False
    base = run()
    advset.AdvSet.REVERSE = bool(rev)
    try:
        other = run()
    finally:
        advset.AdvSet.REVERSE = False
    return R(base is not None and base == other and len(base[0]) == n + 1 and len(base[1]) == n and
             len(base[2][0]) == n and len(base[2][1]) == 3)

"""C06 -- Make, Ninja and compile_commands.json agree on one edge.

One real edge (compile / link) is created by calling the real builtins on a real BuildContext whose
Environment detected the installed gcc once at import (concretely); the three real handlers run
into real Makefile / NinjaFile / CompDB objects; only that edge's command is decoded (rmake+rsh,
rninja+rsh, the compdb entry) and the decoded argument vectors are compared."""
import os
from io import StringIO

os.environ['PATH'] = '/venv/bin:' + os.environ.get('PATH', '')

from bfg9000.environment import Environment
from bfg9000.build_inputs import BuildInputs
from bfg9000.builtins import builtin, init as builtin_init
from bfg9000.backends.make import writer as make
from bfg9000.backends.ninja import writer as ninja
from bfg9000.backends.compdb import writer as compdb
from bfg9000.backends.make.syntax import Makefile, Syntax as MS, Section as MSection, Function
from bfg9000.backends.ninja.syntax import NinjaFile, Syntax as NS, Section as NSection
from bfg9000.path import Path, Root, InstallRoot, abspath

from vpx.params import R, param, no_ctl
from vpx.models import rsh, rmake, rninja

builtin_init()
N = param('N', 2)
EDGE = param('edge', 'compile')


def _mkenv():
    env = Environment(abspath('/bfgdir'), 'make', None, abspath('/srcdir'), abspath('/builddir'))
    env.finalize({InstallRoot.prefix: abspath('/usr/local')}, (True, False), True)
    env.builder('c')
    env.tool('depfixer')
    return env


ENV = _mkenv()


def _context():
    build = BuildInputs(ENV, Path('build.bfg', Root.srcdir))
    ctx = builtin.BuildContext(ENV, build, None)
    ctx.path_stack.append(builtin.BuildContext.PathEntry(build.bfgpath))
    return build, ctx


# ------------------------------------------------------------------ decoding one edge

def _make_vars(mk, rule, parent=None):
    """variables visible to the recipe of `rule`: global sections, `%:` target variables, the
    rule's own target-specific ones (all written by the real _write_variable, read by rmake).
    With `parent` (a rule that has `rule`'s target as prerequisite and is the goal): GNU Make hands
    the parent's target-specific variables down to its prerequisites; they rank above the global
    values and below pattern-specific and own ones (rmake.LOOKUP_ORDER, validated against make)"""
    out = [('srcdir', '/srcdir'), (',', ',')]
    for sec in MSection:
        syn = MS.clean if sec == MSection.path else MS.shell
        for name, value in mk._global_variables[sec]:
            w = mk.writer(StringIO())
            mk._write_variable(w, name, value, syn)
            t = w.stream.getvalue()
            head = name.name + ' := '
            v = rmake.assign_value(t[len(head):-1], out)
            if v is None:
                return None
            out = [(name.name, v)] + out
    glob = out
    pat = []
    for name, value in mk._target_variables:
        w = mk.writer(StringIO())
        mk._write_variable(w, name, value)
        t = w.stream.getvalue()
        head = name.name + ' := '
        v = rmake.assign_value(t[len(head):-1], pat + glob)
        if v is None:
            return None
        pat = [(name.name, v)] + pat
    inherited = []
    if parent is not None:
        for name, value in (parent.variables or {}).items():
            w = mk.writer(StringIO())
            mk._write_variable(w, name, value)
            t = w.stream.getvalue()
            head = name.name + ' := '
            v = rmake.assign_value(t[len(head):-1], inherited + pat + glob)
            if v is None:
                return None
            inherited = [(name.name, v)] + inherited
    out = pat + inherited + glob
    for name, value in (rule.variables or {}).items():
        w = mk.writer(StringIO())
        mk._write_variable(w, name, value)
        t = w.stream.getvalue()
        head = name.name + ' := '
        v = rmake.assign_value(t[len(head):-1], out)
        if v is None:
            return None
        out = [(name.name, v)] + out
    return out


def _rule_of(mk, target_suffix):
    for rule in mk._rules:
        names = [getattr(t, 'path', t) for t in rule.targets]
        if any(getattr(n, 'suffix', n) == target_suffix for n in names) and rule.recipe is not None:
            return rule
    return None


def _make_argv(mk, target_suffix, parent_suffix=None):
    """argv of the first command of the rule building `target_suffix` (as a prerequisite of the
    goal `parent_suffix`, if given)"""
    parent = _rule_of(mk, parent_suffix) if parent_suffix is not None else None
    if parent_suffix is not None and parent is None:
        return None
    for rule in mk._rules:
        names = [getattr(t, 'path', t) for t in rule.targets]
        if not any(getattr(n, 'suffix', n) == target_suffix for n in names):
            continue
        if rule.recipe is None:
            continue
        vars_ = _make_vars(mk, rule, parent)
        if vars_ is None:
            return None
        deps = [getattr(d, 'path', d) for d in rule.deps]
        first_dep = deps[0] if deps else None

        def rel(p):
            if isinstance(p, str):
                return p
            return ('/srcdir/' + p.suffix) if p.root == Root.srcdir else p.suffix
        auto = [('@', target_suffix), ('<', rel(first_dep) if first_dep is not None else '')]
        recipe = rule.recipe
        if isinstance(recipe, Function):
            # $(call RULE_X,arg1,...) : look the define up and bind $(1).. to the arguments
            name = recipe.args[0]
            args = recipe.args[1:]
            body = None
            for dname, dvalue in mk._defines:
                if dname.name == name:
                    body = dvalue
            if body is None:
                return None
            for k, a in enumerate(args):
                w = mk.writer(StringIO())
                w.write_each(a if isinstance(a, list) else [a], MS.function)
                v = rmake.expand(w.stream.getvalue(), vars_)
                if v is None:
                    return None
                auto.append((str(k + 1), v))
            w = mk.writer(StringIO())
            w.write_shell(body[0])
            line = rmake.recipe(w.stream.getvalue(), auto + vars_)
        else:
            w = mk.writer(StringIO())
            w.write_shell(recipe[0])
            line = rmake.recipe(w.stream.getvalue(), auto + vars_)
        if line is None:
            return None
        return rsh.argv(line)
    return None


def _ninja_argv(nf, target_suffix):
    gvars = [('srcdir', '/srcdir')]
    for sec in NSection:
        syn = NS.clean if sec == NSection.path else NS.shell
        for name, value in nf._variables[sec]:
            w = nf.writer(StringIO())
            nf._write_variable(w, name, value, syn)
            t = w.stream.getvalue()
            head = name.name + ' = '
            v = rninja.value(t[len(head):-1], gvars)
            if v is None:
                return None
            gvars = [(name.name, v)] + gvars
    for b in nf._builds:
        outs = [getattr(o, 'path', o) for o in b.outputs]
        if not any(getattr(o, 'suffix', o) == target_suffix for o in outs):
            continue
        if b.rule == 'phony':
            continue

        def esc(items):
            res = []
            for i in items:
                p = getattr(i, 'path', i)
                s = p if isinstance(p, str) else (('/srcdir/' + p.suffix) if p.root == Root.srcdir
                                                  else p.suffix)
                res.append(rninja.shell_escape(s))
            return ' '.join(res)
        bvars = [('in', esc(b.inputs)), ('out', esc(b.outputs))]
        for k, v in b.variables.items():
            w = nf.writer(StringIO())
            nf._write_variable(w, k, v, indent=1)
            t = w.stream.getvalue()
            head = '  ' + k.name + ' = '
            val = rninja.value(t[len(head):-1], gvars)
            if val is None:
                return None
            bvars.append((k.name, val))
        rule = nf._rules[b.rule]
        w = nf.writer(StringIO())
        nf._write_variable(w, NinjaFile_var('command'), rule.command, indent=1, can_wrap=True)
        t = w.stream.getvalue()
        line = rninja.value(t[len('  command = '):-1], bvars + gvars)
        if line is None:
            return None
        return rsh.argv(line)
    return None


def NinjaFile_var(name):
    from bfg9000.backends.ninja.syntax import var
    return var(name)


def _strip(argv, drop):
    return [a for a in argv if a not in drop]


def _norm_paths(argv):
    """compile_commands.json spells source-tree files absolutely and build-tree files relative to
    its `directory` (the build dir); Make and Ninja (with srcdir=/srcdir) give the same strings
    except for a leading './' on top-level build-tree files (same file)"""
    return [a[2:] if a.startswith('./') and len(a) > 2 else a for a in argv]


NINJA_ONLY = ['-fdiagnostics-color', '-fcolor-diagnostics']


def c_compile(s: str) -> bool:
    """object_file(file='a.c', options=[s]) with a global option: the compiler gets the same
    program and arguments from Make, from Ninja and in compile_commands.json
    pre: len(s) == N and no_ctl(s)
    post: _
    """
    build, ctx = _context()
    ctx['global_options'](['-DGLOBAL=1'], lang='c')
    ctx['object_file'](file='a.c', options=[s] if s != '' else [])
    edges = list(build.edges())
    mk = Makefile('build.bfg', gnu=True)
    make.rule_handler.run(edges, build, mk, ENV)
    nf = NinjaFile('build.bfg')
    ninja.rule_handler.run(edges, build, nf, ENV)
    cdb = compdb.CompDB(ENV)
    for e in edges:
        if type(e) in compdb._rule_handlers:
            compdb._rule_handlers[type(e)](e, build, cdb, ENV)
    a_make = _make_argv(mk, 'a.o')
    a_ninja = _ninja_argv(nf, 'a.o')
    if a_make is None or a_ninja is None or len(cdb._commands) != 1:
        return R(False)
    a_cdb = cdb._commands[0].get('arguments')
    if a_cdb is None:
        return R(False)
    a_ninja = _strip(a_ninja, NINJA_ONLY)
    want_opt = [s] if s != '' else []
    ok = a_make == a_ninja and a_make == list(a_cdb)
    # and the option really is there, once, after the global one
    ok = ok and a_make[0] == a_cdb[0] and '-DGLOBAL=1' in a_make
    if s != '' and s != '-DGLOBAL=1':
        ok = ok and a_make.count(s) >= 1
    return R(ok)


def p_prereq(s: str) -> bool:
    """a step built as a prerequisite of a step with its own options: object_file('gen.c') without
    options, needed (extra_deps) by object_file('a.c', options=[s]); when Make builds gen.o on the
    way to a.o it must run the same command as Ninja and compile_commands.json -- GNU Make hands
    target-specific variables down to prerequisites unless something resets them
    pre: len(s) == N and no_ctl(s)
    post: _
    """
    build, ctx = _context()
    ctx['global_options'](['-DGLOBAL=1'], lang='c')
    dep = ctx['object_file'](file='gen.c')
    ctx['object_file'](file='a.c', options=[s] if s != '' else [], extra_deps=[dep])
    edges, mk, nf, cdb = _run_handlers(build)
    a_make = _make_argv(mk, 'gen.o', 'a.o')
    a_ninja = _ninja_argv(nf, 'gen.o')
    entries = [c for c in cdb._commands if c.get('output') == 'gen.o']
    if a_make is None or a_ninja is None or len(entries) != 1:
        return R(False)
    a_cdb = entries[0].get('arguments')
    if a_cdb is None:
        return R(False)
    a_ninja = _strip(a_ninja, NINJA_ONLY)
    return R(a_make == a_ninja and a_make == list(a_cdb) and '-DGLOBAL=1' in a_make)


MODES = ['copy', 'symlink', 'hardlink']


def y_copy(ma: int, ka: int, mb: int, kb: int) -> bool:
    """two copy_file steps in one project (modes copy / symlink / hardlink; source in the source
    tree or a generated file in a build subdirectory): each command agrees in the three outputs --
    a backend emits one shared rule / define per mode, so the spelling of the input must not
    depend on which step happened to be written first
    pre: 0 <= ma < 3 and 0 <= mb < 3 and 0 <= ka < 2 and 0 <= kb < 2
    post: _
    """
    build, ctx = _context()
    gen = ctx['build_step']('sub/gen.txt', cmd=['prog', 'x'])
    srcs = [lambda: 'data.ini', lambda: gen]
    ctx['copy_file']('out/a.txt', srcs[ka](), mode=MODES[ma])
    ctx['copy_file']('sub/b.txt', srcs[kb](), mode=MODES[mb])
    edges, mk, nf, cdb = _run_handlers(build)
    ok = True
    for out in ('out/a.txt', 'sub/b.txt'):
        a_make = _make_argv(mk, out)
        a_ninja = _ninja_argv(nf, out)
        entries = [c for c in cdb._commands if c.get('output') == out]
        if a_make is None or a_ninja is None or len(entries) != 1:
            return R(False)
        a_cdb = entries[0].get('arguments')
        if a_cdb is None:
            return R(False)
        ok = ok and _norm_paths(a_make) == _norm_paths(a_ninja) and \
            _norm_paths(a_make) == _norm_paths(list(a_cdb))
    return R(ok)


def _run_handlers(build):
    edges = list(build.edges())
    mk = Makefile('build.bfg', gnu=True)
    make.rule_handler.run(edges, build, mk, ENV)
    nf = NinjaFile('build.bfg')
    ninja.rule_handler.run(edges, build, nf, ENV)
    cdb = compdb.CompDB(ENV)
    for e in edges:
        if type(e) in compdb._rule_handlers:
            compdb._rule_handlers[type(e)](e, build, cdb, ENV)
    return edges, mk, nf, cdb


def l_link(s: str) -> bool:
    """executable('prog', files=['a.c'], link_options=[s]): the link command agrees
    pre: len(s) == N and no_ctl(s)
    post: _
    """
    build, ctx = _context()
    ctx['executable']('prog', files=['a.c'], link_options=[s] if s != '' else [])
    edges, mk, nf, cdb = _run_handlers(build)
    a_make = _make_argv(mk, 'prog')
    a_ninja = _ninja_argv(nf, 'prog')
    entries = [c for c in cdb._commands if c.get('output') == 'prog']
    if a_make is None or a_ninja is None or len(entries) != 1:
        return R(False)
    a_cdb = entries[0].get('arguments')
    if a_cdb is None:
        return R(False)
    a_ninja = _strip(a_ninja, NINJA_ONLY)
    ok = a_make == a_ninja and a_make == list(a_cdb)
    if s != '':
        ok = ok and s in a_make
    return R(ok)


def b_build_step(s: str) -> bool:
    """build_step('out.txt', cmd=['gen', s, <input file>]) : the generator gets the same argv from
    Make and from Ninja (compile_commands.json lists it as well)
    pre: len(s) == N and no_ctl(s)
    post: _
    """
    build, ctx = _context()
    src = ctx['generic_file']('in.txt')
    ctx['build_step']('out.txt', cmd=['gen', s, src])
    edges, mk, nf, cdb = _run_handlers(build)
    a_make = _make_argv(mk, 'out.txt')
    a_ninja = None
    # the generic ninja command rule: command = ${cmd}
    gv = [('srcdir', '/srcdir')]
    for b in nf._builds:
        outs = [getattr(o, 'path', o) for o in b.outputs]
        if any(getattr(o, 'suffix', o) == 'out.txt' for o in outs):
            for k, v in b.variables.items():
                if k.name == 'cmd':
                    w = nf.writer(StringIO())
                    nf._write_variable(w, k, v, indent=1)
                    t = w.stream.getvalue()
                    val = rninja.value(t[len('  cmd = '):-1], gv)
                    if val is not None:
                        a_ninja = rsh.argv(val)
    want = ['gen', s, '/srcdir/in.txt']
    entries = [c for c in cdb._commands if c.get('output') == 'out.txt']
    ok = a_make == want and a_ninja == want
    if entries:
        ok = ok and list(entries[0].get('arguments') or []) == want
    return R(ok)


def g_link_lib_global(s: str) -> bool:
    """executable linking a project static library, with a *global* link option: Make, Ninja and
    compile_commands.json still hand the linker the same argument vector (global and per-target
    flag variables, library flags)
    pre: len(s) == N and no_ctl(s)
    post: _
    """
    build, ctx = _context()
    if s != '':
        ctx['global_link_options']([s], family='native')
    lib = ctx['static_library']('util', files=['u.c'])
    ctx['executable']('prog', files=['a.c'], libs=[lib])
    edges, mk, nf, cdb = _run_handlers(build)
    a_make = _make_argv(mk, 'prog')
    a_ninja = _ninja_argv(nf, 'prog')
    entries = [c for c in cdb._commands if c.get('output') == 'prog']
    if a_make is None or a_ninja is None or len(entries) != 1:
        return R(False)
    a_cdb = entries[0].get('arguments')
    a_ninja = _strip(a_ninja, NINJA_ONLY)
    ok = a_cdb is not None and a_make == a_ninja and _norm_paths(a_make) == _norm_paths(list(a_cdb))
    ok = ok and './libutil.a' in a_make and (s == '' or s in a_make)
    return R(ok)


# ---- whole-file evaluation: the order in which file-scope variables are defined matters ---------
from bfg9000.backends.ninja import writer as nwriter
from bfg9000.backends.make import writer as mwriter_mod


def _write_whole(writer_mod, build, backend):
    """run the real <backend>.writer.write(env, build_inputs) into memory"""
    buf = StringIO()

    class _F:
        def __enter__(self):
            return buf

        def __exit__(self, *a):
            return False
    had = hasattr(writer_mod, 'open')
    old = getattr(writer_mod, 'open', None)
    writer_mod.open = lambda *a, **k: _F()
    oldb = ENV.backend
    ENV.backend = backend
    # there is no ninja binary in the sandbox: the clean rule only needs *a* program path
    dict.__setitem__(ENV.variables, 'NINJA', '/bin/true')
    try:
        writer_mod.write(ENV, build)
    finally:
        ENV.backend = oldb
        if had:
            writer_mod.open = old
        else:
            del writer_mod.open
    return buf.getvalue()


def w_whole_file(hasinc: bool, hasopt: bool, local: bool) -> bool:
    """the complete build.ninja written by the real ninja.writer.write, evaluated as Ninja does
    (file-scope bindings take the values known *when they are read*): a global include directory
    in the source tree and a global option reach the compiler, as they do in the entry of
    compile_commands.json
    pre: True
    post: _
    """
    build, ctx = _context()
    if hasinc:
        inc = ctx['header_directory']('include')
        from bfg9000 import options as bopts
        ctx['global_options']([bopts.include_dir(inc)], lang='c')
    if hasopt:
        ctx['global_options'](['-DG=a b'], lang='c')
    ctx['object_file'](file='a.c', options=['-DL=1'] if local else [])
    build['regenerate'].outputs = []
    edges = list(build.edges())
    cdb = compdb.CompDB(ENV)
    for e in edges:
        if type(e) in compdb._rule_handlers:
            compdb._rule_handlers[type(e)](e, build, cdb, ENV)
    text = _write_whole(nwriter, build, 'ninja')
    man = rninja.manifest(text)
    if man is None:
        return R(False)
    cmd = rninja.command_of(man, 'a.o')
    if cmd is None:
        return R(False)
    a_ninja = rsh.argv(cmd)
    if a_ninja is None:
        return R(False)
    a_ninja = _strip(a_ninja, NINJA_ONLY)
    a_cdb = list(cdb._commands[0]['arguments'])
    ok = _norm_paths(a_ninja) == _norm_paths(a_cdb)
    if hasinc:
        ok = ok and '-I/srcdir/include' in a_ninja
    return R(ok)

"""C08 -- automatic regeneration: the decision kernel find_check_cache ("regeneration is skipped
only when the fresh result would be identical") and the cache-key round trip."""
from typing import List

from bfg9000 import path as bpath
from bfg9000.path import Path, Root
from bfg9000.builtins import find as bfind
from bfg9000.builtins.regenerate import RegenerateFiles
from bfg9000.build_inputs import Regenerating
from bfg9000.exceptions import AbortConfigure

from vpx.params import R, param

NF = param('NF', 2)      # number of cached find_files filters
CAND = [Path('s/a.c', Root.srcdir), Path('s/d', Root.srcdir, directory=True)]
CACHED = param('cached', None)   # partition: the cached category masks (one per filter)
# known finding C08-F23: a directory that appeared since the last real regeneration
KF_NEWDIR = param('kf_newdir', False)
INPUTS = [Path('build.bfg', Root.srcdir), Path('options.bfg', Root.srcdir)]
OUTPUTS = [Path('build.ninja'), Path('extra.out')]
FR = bfind.FindResult
FILTERS = [bfind.FileFilter([Path('s/*.c', Root.srcdir)], None, ['*.h']),
           bfind.FileFilter([Path('s/**/', Root.srcdir)], None)]


class _Env:
    base_dirs = None
    builddir = Path('/build', Root.absolute)


class _Ctx:
    regenerating = Regenerating.lazy
    env = _Env

    def __init__(self):
        self.build = {'find_cache': bfind.FindCache(), 'find_dirs': set()}


def _cats(mask):
    """category of each candidate path for one filter: 2 bits per candidate
    0 include, 1 not_now, 2/3 excluded"""
    found, extra = [], []
    for i, p in enumerate(CAND):
        c = (mask >> (2 * i)) & 3
        if c == 0:
            found.append(p)
        elif c == 1:
            extra.append(p)
    return found, extra


def c_check_cache(tin: List[int], tout: List[int], out1_exists: bool,
                  cached: List[int], fresh: List[int], newdir: bool = False) -> bool:
    """lazy regeneration is skipped (AbortConfigure) exactly when no explicit input is newer than
    an output and every cached find_files result (found and extra lists) equals the fresh one;
    when it is skipped every existing output was touched, and the find cache holds the fresh
    results.  Timestamps are arbitrary integers (0 = missing file, as in the code).
    newdir: the fresh walk also visits a directory (s/new) that did not exist when the build files
    and their trigger list (.bfg_find_deps: one prerequisite per walked directory) were last
    written.  A skipped regeneration leaves that list as it is, so it may only be skipped if every
    directory walked now is already a trigger; otherwise files added to the new directory later
    can never start a regeneration.
    pre: len(tin) == 2 and len(tout) == 2 and len(cached) == NF and len(fresh) == NF
    pre: all(t >= 0 for t in tin) and all(t >= 0 for t in tout)
    pre: all(0 <= m < 16 for m in cached) and all(0 <= m < 16 for m in fresh)
    pre: CACHED is None or cached == CACHED
    pre: not (KF_NEWDIR and newdir)
    post: _
    """
    times = {}
    for p, t in zip(INPUTS, tin):
        times[p.suffix] = t
    for p, t in zip(OUTPUTS, tout):
        times[p.suffix] = t
    touched = []
    old_cache = {}
    fresh_of = {}
    for i in range(NF):
        old_cache[FILTERS[i]] = bfind.FindCache.FindCacheEntry(*_cats(cached[i]))
        fresh_of[id(FILTERS[i])] = fresh[i]

    def getmtime_ns(path, variables=None, strict=True):
        return times[path.suffix]

    def exists(path, variables=None):
        return path.suffix != OUTPUTS[1].suffix or out1_exists

    def touch(path, variables=None):
        touched.append(path.suffix)

    def find_files(env, filt, seen_dirs=None):
        if seen_dirs is not None:
            seen_dirs.append(Path('s', Root.srcdir, directory=True))
            if newdir:
                seen_dirs.append(Path('s/new', Root.srcdir, directory=True))
        m = fresh_of[id(filt)]
        for i, p in enumerate(CAND):
            c = (m >> (2 * i)) & 3
            yield p, [FR.include, FR.not_now, FR.exclude, FR.exclude_recursive][c]

    saved = (bpath.getmtime_ns, bpath.exists, bpath.touch, bfind._find_files,
             bfind.FindCacheFile.load)
    bpath.getmtime_ns, bpath.exists, bpath.touch = getmtime_ns, exists, touch
    bfind._find_files = find_files
    bfind.FindCacheFile.load = classmethod(
        lambda cls, path, context: bfind.FindCacheFile(RegenerateFiles(INPUTS, OUTPUTS),
                                                       old_cache))
    ctx = _Ctx()
    try:
        try:
            bfind.find_check_cache(ctx)
            aborted = False
        except AbortConfigure:
            aborted = True
    finally:
        (bpath.getmtime_ns, bpath.exists, bpath.touch, bfind._find_files) = saved[:4]
        bfind.FindCacheFile.load = saved[4]
    newer = max(tin) > min(tout)
    older = max(tin) < min(tout)
    same = all(_cats(cached[i]) == _cats(fresh[i]) for i in range(NF))
    # skipping is *sound* (never when an input is newer or a result changed) and happens whenever
    # every input is strictly older and nothing changed (equal timestamps may go either way)
    ok = (not aborted or ((not newer) and same)) and (aborted or not (older and same))
    if aborted and newdir:
        ok = False          # the trigger list on disk does not know s/new
    if aborted:
        want = [OUTPUTS[0].suffix] + ([OUTPUTS[1].suffix] if out1_exists else [])
        ok = ok and sorted(touched) == sorted(want)
    else:
        ok = ok and touched == []
    if not newer:
        # the fresh results are kept for the real regeneration that follows
        for i in range(NF):
            e = ctx.build['find_cache'][FILTERS[i]]
            ok = ok and (list(e.found), list(e.extra)) == _cats(fresh[i])
        # ... and so are the directories that were walked: they become the regeneration triggers
        # (.bfg_find_deps) of the build files about to be written
        ok = ok and Path('s', Root.srcdir, directory=True) in ctx.build['find_dirs']
    else:
        # an explicit input (the script itself) changed: the regeneration must behave like a
        # fresh configure, so nothing of the old cache -- filters the edited script may no longer
        # contain, directories it no longer visits -- is carried into it
        ok = ok and len(ctx.build['find_cache']) == 0 and len(ctx.build['find_dirs']) == 0
    return R(ok)


PATTERNS = ['a', '*.c', '**', '[ab]?', 'a/', '*/']


def k_cache_key(i1: int, i2: int, i3: int, ti: int, ex: int, xt: int) -> bool:
    """the cache key survives its JSON form: FileFilter.from_json(f.to_json()) == f with equal
    hash, so that a regeneration finds its own cache entries again
    pre: 0 <= i1 < 6 and -1 <= i2 < 6 and -1 <= i3 < 6 and 0 <= ti < 4 and -1 <= ex < 6 and -1 <= xt < 6
    pre: i1 == param('I1', 0) and (param('I3', False) or i3 == -1) and ex in (-1, 1, 4) and xt in (-1, 1, 4)
    post: _
    """
    bits = [PATTERNS[i1]] + ([PATTERNS[i2]] if i2 >= 0 else []) + ([PATTERNS[i3]] if i3 >= 0 else [])
    pat = '/'.join(b.rstrip('/') for b in bits[:-1] + [bits[-1]])
    if bits[-1].endswith('/') and not pat.endswith('/'):
        pat += '/'
    typ = [None, 'f', 'd', '*'][ti]
    try:
        f = bfind.FileFilter([Path(pat, Root.srcdir)], typ,
                             [PATTERNS[xt]] if xt >= 0 else None,
                             [PATTERNS[ex]] if ex >= 0 else None)
    except ValueError:
        return True      # not a glob / type f on a directory pattern: rejected at configure time
    except Exception as e:
        if type(e).__name__ == 'NonGlobError':
            return True
        raise
    g = bfind.FileFilter.from_json(f.to_json(), {})
    return R(g == f and hash(g) == hash(f) and not (g != f))


# ---- the saved input list == the inputs of the backend's regenerate rule ----------------------
from bfg9000.builtins import regenerate as bregen
from bfg9000.backends.make.syntax import Makefile
from bfg9000.backends.ninja.syntax import NinjaFile


class _Tool:
    metadata_file = Path('mopack/mopack.json')

    def __call__(self, *args, **kwargs):
        return ['tool'] + [a for a in args if isinstance(a, str)]


class _TC:
    def __init__(self, path):
        self.path = path


class _REnv:
    backend = 'make'
    backend_version = None

    def __init__(self, has_tc, has_mopack):
        self.toolchain = _TC(Path('/tc/toolchain.bfg', Root.absolute) if has_tc else None)
        self.mopack = [Path('mopack.yml', Root.srcdir)] if has_mopack else []

    def tool(self, name):
        return _Tool()


class _RBuild(dict):
    def __init__(self, n_boot, has_depfile):
        self.bootstrap_paths = [Path('build.bfg', Root.srcdir), Path('options.bfg', Root.srcdir),
                                Path('sub/build.bfg', Root.srcdir)][:n_boot]
        r = bregen.Regenerate()
        r.outputs = []
        self['regenerate'] = r

    def add_target(self, t):
        return t


def i_inputs_agree(n_boot: int, has_tc: bool, has_mopack: bool, ninja: bool) -> bool:
    """the inputs recorded for the lazy check (RegenerateFiles.make, saved in .bfg_find_cache) are
    exactly the inputs the backend's regenerate rule depends on: otherwise the backend re-runs
    bfg9000 for an edit that the lazy check then declares irrelevant
    pre: 1 <= n_boot <= 3
    post: _
    """
    env = _REnv(has_tc, has_mopack)
    env.backend = 'ninja' if ninja else 'make'
    build = _RBuild(n_boot, False)
    saved = bregen.RegenerateFiles.make(build, env)
    if ninja:
        nf = NinjaFile('build.bfg')
        bregen.ninja_regenerate_rule(build, nf, env)
        b = [x for x in nf._builds if x.rule == 'regenerate'][0]
        rule_inputs, rule_outputs = b.implicit, b.outputs
    else:
        mk = Makefile('build.bfg')
        bregen.make_regenerate_rule(build, mk, env)
        r = mk._rules[-1]
        rule_inputs, rule_outputs = r.deps, r.targets
    return R(list(saved.inputs) == list(rule_inputs) and list(saved.outputs) == list(rule_outputs))

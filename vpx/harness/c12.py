"""C12 -- path algebra laws.  The raw user string goes through the real BasePath constructor.

Oracle for normalisation / root confinement: an independent component stack walk (`_walk`), not
posixpath.normpath (which the implementation itself uses)."""
import ntpath
import os
import posixpath
from typing import List

from bfg9000.path import Root, InstallRoot, commonprefix, uniquetrees
from bfg9000.platforms.posix import PosixPath
from bfg9000.platforms.windows import WindowsPath
from bfg9000.platforms import basepath

from vpx.params import R, param, no_ctl

N = param('N', 3)
M = param('M', 2)
Path = WindowsPath if param('flavor', 'posix') == 'windows' else PosixPath
ROOTS = [Root.srcdir, Root.builddir, InstallRoot.prefix, InstallRoot.libdir]
ROOT = ROOTS[param('root', 0)]
# known findings (see known_findings.json): suffix starting with '~' or with '<char>:' reached
# through './' or 'x/../' is accepted by the constructor but re-interpreted by every operation
# that rebuilds the path
KF_TILDE = param('kf_tilde', False)
KF_DRIVE = param('kf_drive', False)
KF_DRIVECOMP = param('kf_drivecomp', False)


def _walk(s):
    """(escapes, components, isdir) of a relative path string, '/' and backslash both separators"""
    comps = []
    escapes = False
    t = s.replace(chr(92), '/')
    parts = t.split('/')
    for c in parts:
        if c == '' or c == '.':
            continue
        if c == '..':
            if comps:
                comps.pop()
            else:
                escapes = True
        else:
            comps.append(c)
    last = parts[-1]
    isdir = last == '' or last == '.' or last == '..'
    return escapes, comps, isdir


def _plain(s):
    """raw strings in the scope of the relative-path laws: not absolute, no drive, no ~user"""
    if s.startswith('~') or s.startswith('/') or s.startswith(chr(92)):
        return False
    if s[1:2] == ':':
        return False
    return True


def _kf(suffix):
    if KF_TILDE and suffix.startswith('~'):
        return True
    if KF_DRIVE and suffix[1:2] == ':':
        return True
    return False


def n_escaping(t: str) -> bool:
    """strings that start by leaving the root and go on with real components (`../x`, `a/../../x`):
    rejected, whatever follows
    pre: len(t) == N and no_ctl(t) and _plain(t)
    post: _
    """
    ok = True
    for pre in ('../', 'a/../../', './../'):
        s = pre + t
        escapes, comps, isdir = _walk(s)
        try:
            Path(s, ROOT)
            accepted = True
        except ValueError:
            accepted = False
        ok = ok and (accepted != escapes)
    return R(ok)


def n_normalised(s: str) -> bool:
    """construction normalises, and rejects exactly the strings that leave the root
    pre: len(s) == N and no_ctl(s) and _plain(s)
    post: _
    """
    escapes, comps, isdir = _walk(s)
    try:
        p = Path(s, ROOT)
    except ValueError:
        return R(escapes)
    if escapes:
        return R(False)
    return R(p.root == ROOT and p.suffix == '/'.join(comps) and
             p.directory == (isdir or not comps) and p.destdir is False)


def n_idempotent(s: str) -> bool:
    """a path rebuilt from its own suffix is the same path
    pre: len(s) == N and no_ctl(s) and _plain(s)
    post: _
    """
    try:
        p = Path(s, ROOT)
    except ValueError:
        return True
    if _kf(p.suffix):
        return True
    q = Path(p.suffix, p.root, directory=p.directory)
    return R(q == p and q.directory == p.directory)


def s_separators(s: str) -> bool:
    """backslash and slash are the same separator
    pre: len(s) == N and no_ctl(s) and not s.startswith('~')
    post: _
    """
    t = s.replace(chr(92), '/')
    try:
        p = Path(s, ROOT)
    except ValueError:
        try:
            Path(t, ROOT)
        except ValueError:
            return R(True)
        return R(False)
    try:
        q = Path(t, ROOT)
    except ValueError:
        return R(False)
    return R(p == q and p.directory == q.directory)


def p_parent_append(s: str) -> bool:
    """parent / basename / append are mutually inverse; splitleaf; split
    pre: len(s) == N and no_ctl(s) and _plain(s)
    post: _
    """
    try:
        p = Path(s, ROOT)
    except ValueError:
        return True
    if not p.suffix or _kf(p.suffix):
        return True
    par = p.parent()
    base = p.basename()
    if _kf(par.suffix):
        return True
    if KF_DRIVECOMP and par.suffix and base[1:2] == ':':
        return True
    ok = par.directory and par.root == p.root and par.append(base) == p
    ok = ok and '/'.join(p.split()) == p.suffix and p.splitleaf() == (par, base)
    return R(ok)


def x_ext(s: str) -> bool:
    """stripext / addext / ext are consistent
    pre: len(s) == N and no_ctl(s) and _plain(s)
    post: _
    """
    try:
        p = Path(s, ROOT)
    except ValueError:
        return True
    if not p.suffix or _kf(p.suffix) or p.directory:
        return True
    e = p.ext()
    st = p.stripext()
    if _kf(st.suffix):
        return True
    return R(st.addext(e) == p and st.root == p.root and st.suffix + e == p.suffix and
             p.stripext('.o').suffix == st.suffix + '.o')


def j_json(s: str) -> bool:
    """the JSON form is an inverse, including the directory flag
    pre: len(s) == N and no_ctl(s) and _plain(s)
    post: _
    """
    try:
        p = Path(s, ROOT)
    except ValueError:
        return True
    if _kf(p.suffix):
        return True
    q = Path.from_json(p.to_json())
    return R(q == p and q.directory == p.directory and q.destdir == p.destdir)


def r_relpath(a: str, b: str) -> bool:
    """start.append(p.relpath(start)) == p for two paths under a common root; with a $ORIGIN
    prefix the result is $ORIGIN or $ORIGIN/... and joins back
    pre: len(a) == N and len(b) == M and no_ctl(a) and no_ctl(b) and _plain(a) and _plain(b)
    post: _
    """
    try:
        p = Path(a, ROOT)
        start = Path(b, ROOT, directory=True)
    except ValueError:
        return True
    if _kf(p.suffix) or _kf(start.suffix):
        return True
    rel = p.relpath(start, localize=False)
    back = start.append(rel)
    ok = back == p
    o = p.relpath(start, prefix='$ORIGIN', localize=False)
    if o != '$ORIGIN':
        ok = ok and o.startswith('$ORIGIN/') and start.append(o[len('$ORIGIN/'):]) == p
    else:
        ok = ok and p.suffix == start.suffix
    return R(ok)


BASES = ['base/dir', 'b', '']


def b_base_path(s: str) -> bool:
    """a path built relative to another Path object obeys the same normalisation, confinement
    and separator laws (the root may be a Path)
    pre: len(s) == N and no_ctl(s) and _plain(s)
    post: _
    """
    base = Path(BASES[param('base', 0)], ROOT, directory=True)
    escapes, comps, isdir = _walk((base.suffix + '/' if base.suffix else '') + s)
    try:
        p = Path(s, base)
    except ValueError:
        return R(escapes)
    if escapes:
        return R(False)
    return R(p.root == ROOT and p.suffix == '/'.join(comps) and
             p.directory == (isdir or not comps))


class _V:
    """a base directory realised as a build-file variable"""
    def __init__(self, name):
        self.name = name


def g_string(s: str) -> bool:
    """realising against base directories is ordinary path joining (no doubled or missing
    separator), for the variable form too
    pre: len(s) == N and no_ctl(s) and _plain(s)
    post: _
    """
    try:
        p = Path(s, ROOT)
    except ValueError:
        return True
    base = Path('/base/dir', Root.absolute)
    full = p.string({ROOT: base})
    want = '/base/dir' + ('/' + p.suffix if p.suffix else '')
    if Path is WindowsPath:
        want = want.replace('/', chr(92))
    r = p.realize({ROOT: 'VAR'})
    want_r = 'VAR' + ('/' + p.suffix if p.suffix else '')
    if Path is WindowsPath:
        want_r = 'VAR' + ((chr(92) + p.suffix.replace('/', chr(92))) if p.suffix else '')
    none = p.realize({ROOT: None})
    want_none = p.suffix or '.'
    if Path is WindowsPath:
        want_none = want_none.replace('/', chr(92))
    # a root that itself resolves through further roots (bindir -> exec_prefix -> prefix -> /...)
    others = [x for x in (InstallRoot.prefix, InstallRoot.exec_prefix, InstallRoot.bindir) if x != ROOT]
    r2, r3 = others[0], others[1]
    deep = p.string({ROOT: Path('lvl1', r2), r2: Path('', r3), r3: base})
    want_deep = '/base/dir/lvl1' + ('/' + p.suffix if p.suffix else '')
    if Path is WindowsPath:
        want_deep = want_deep.replace('/', chr(92))
    return R(full == want and r == want_r and none == want_none and deep == want_deep)


CWD = param('cwd', '/w/cur')


def a_abspath(s: str) -> bool:
    """abspath resolves against the current directory like ordinary joining
    pre: len(s) == N and no_ctl(s) and _plain(s)
    post: _
    """
    old = os.getcwd
    os.getcwd = lambda: CWD
    try:
        p = Path.abspath(s)
    except ValueError:
        return True
    finally:
        os.getcwd = old
    escapes, comps, isdir = _walk(CWD[1:] + '/' + s)
    if escapes:
        # '/..' is '/': an absolute path cannot escape
        return True
    return R(p.root == Root.absolute and p.suffix == '/' + '/'.join(comps))


# 'a.' sorts between 'a' and 'a/b' as a string but after it as a component list
NAMES = ['a', 'a.', 'b']
NN = param('NN', 3)          # how many of the names are used


def _tok(ixs, isdir=False):
    p = Path.__new__(Path)
    p.suffix = '/'.join(NAMES[i] for i in ixs)
    p.root = Root.srcdir
    p.directory = isdir or not ixs
    p.destdir = False
    return p


def _below(child, parent):
    return child[:len(parent)] == parent


K = param('K', 3)


def c_commonprefix(p1: List[int], p2: List[int], p3: List[int]) -> bool:
    """commonprefix is the deepest common ancestor-or-self (file paths: non-empty)
    pre: 1 <= len(p1) <= M and 1 <= len(p2) <= M and 1 <= len(p3) <= M and (K == 3 or p3 == p2)
    pre: all(0 <= i < NN for i in p1) and all(0 <= i < NN for i in p2) and all(0 <= i < NN for i in p3)
    post: _
    """
    ps = [p1, p2, p3]
    r = commonprefix([_tok(i) for i in ps])
    if r is None:
        return R(False)
    rc = r.split()
    k = 0
    while all(k < len(p) for p in ps) and NAMES[p1[k]] == NAMES[p2[k]] == NAMES[p3[k]]:
        k += 1
    return R(rc == [NAMES[i] for i in p1[:k]] and r.root == Root.srcdir)


def t_uniquetrees(p1: List[int], p2: List[int], p3: List[int]) -> bool:
    """uniquetrees: a subset, covering everything, no element below another
    pre: len(p1) <= M and len(p2) <= M and len(p3) <= M and (K == 3 or p3 == p2)
    pre: all(0 <= i < NN for i in p1) and all(0 <= i < NN for i in p2) and all(0 <= i < NN for i in p3)
    post: _
    """
    ps = [p1, p2, p3]
    paths = [_tok(i, True) for i in ps]
    res = uniquetrees(paths)
    rs = [r.split() for r in res]
    names = [[NAMES[i] for i in p] for p in ps]
    ok = all(any(r is q for q in paths) for r in res)
    for n in names:
        ok = ok and any(_below(n, r) for r in rs)
    for i, r in enumerate(rs):
        for j, q in enumerate(rs):
            if i != j and _below(r, q):
                ok = False
    return R(ok)


HNAMES = ['a', 'a/b', '']


def h_eq_hash(i: int, v1: int, v2: int, r1: int, r2: int) -> bool:
    """equality agrees with hashing: for every pair of spellings / derivations of a location
    (plain, trailing slash, /., /x/.., as_directory(), JSON round trip) under two roots:
    p == q implies hash(p) == hash(q), and the pair is found as one key in a dict
    pre: 0 <= i < 3 and 0 <= v1 < 6 and 0 <= v2 < 6 and 0 <= r1 < 2 and 0 <= r2 < 2
    post: _
    """
    def make(v, r):
        root = ROOTS[r]
        name = HNAMES[0]
        if i == 1:
            name = HNAMES[1]
        elif i == 2:
            name = HNAMES[2]
        if v == 0:
            return Path(name or '.', root)
        if v == 1:
            return Path((name or '.') + '/', root)
        if v == 2:
            return Path((name or '.') + '/.', root)
        if v == 3:
            return Path((name + '/' if name else '') + 'x/..', root)
        if v == 4:
            return Path(name or '.', root).as_directory()
        return Path.from_json(Path(name or '.', root).to_json())
    p = make(v1, r1)
    q = make(v2, r2)
    if p == q:
        d = {p: 1}
        return R(hash(p) == hash(q) and q in d and len({p, q}) == 1)
    return R(not (p != q) is False or True)

"""C20 -- Windows command-line quoting (MS C runtime rules) and MSBuild solution GUIDs."""
from io import StringIO
from typing import List

from bfg9000.shell import windows as wshell
from bfg9000 import safe_str
from bfg9000.shell.list import shell_list
from bfg9000.backends.ninja import syntax as nsyntax
from bfg9000.backends.msbuild import solution as msol

from vpx.params import R, param, no_ctl
from vpx.models import rmsvcrt, rninja

N = param('N', 2)
M = param('M', 1)


def q_quote(s: str) -> bool:
    """a quoted argument parses back under the MS C runtime rules and under the repo's own split
    pre: len(s) == N and no_ctl(s)
    post: _
    """
    q = wshell.quote(s)
    line = 'prog ' + q
    return R(rmsvcrt.argv(line) == ['prog', s] and wshell.split(line) == ['prog', s])


def j_join(a: str, b: str) -> bool:
    """split is the inverse of join; and the MS runtime agrees
    pre: len(a) == N and len(b) == M and no_ctl(a) and no_ctl(b)
    post: _
    """
    line = wshell.join(['prog', a, b])
    return R(wshell.split(line) == ['prog', a, b] and rmsvcrt.argv(line) == ['prog', a, b])


def p_jbos(a: str, b: str) -> bool:
    """an argument made of several pieces (e.g. /I + dir) is still one argument
    pre: len(a) == N and len(b) == M and no_ctl(a) and no_ctl(b)
    post: _
    """
    q = wshell.quote(safe_str.jbos(a, b))
    line = 'prog ' + q + ' x'
    want = ['prog', a + b, 'x'] if (a + b) != '' else None
    if want is None:
        return True
    return R(rmsvcrt.argv(line) == want and wshell.split(line) == want)


class _Win:
    family = 'windows'


NF = nsyntax.NinjaFile('build.bfg')


def w_cmd_wrap(s: str) -> bool:
    """Ninja on Windows: `cmd /s /c "<line>"` around shell lists; the inner line gives the argv
    pre: len(s) == N and no_ctl(s)
    post: _
    """
    old = nsyntax.platform_info
    nsyntax.platform_info = lambda: _Win
    try:
        out = NF.writer(StringIO(), shell=wshell)
        NF._write_variable(out, nsyntax.var('command'),
                           wshell.join_lines([['first', 'y'], ['prog', s]]), indent=1, can_wrap=True)
    finally:
        nsyntax.platform_info = old
    text = out.stream.getvalue()
    head = '  command = '
    if not (text.startswith(head) and text.endswith('\n')):
        return R(False)
    val = rninja.value(text[len(head):-1])
    if val is None:
        return R(False)
    inner = rmsvcrt.cmd_s_c(val)
    if inner is None:
        return R(False)
    # cmd splits the line at the unquoted && ; each half is parsed by the program's C runtime
    k = inner.find(' && ')
    if k < 0:
        return R(False)
    return R(rmsvcrt.argv(inner[:k]) == ['first', 'y'] and
             rmsvcrt.argv(inner[k + 4:]) == ['prog', s])


NAMES = ['a', 'd/a', 'b']     # two projects share a basename
RUNS = param('RUNS', 3)
SUF = param('SUF', ' z')


class _MemFile:
    """in-memory stand-in for the .bfg_uuid file: UuidMap._load / save are the real methods"""
    def __init__(self, store, mode):
        import io
        self.store = store
        self.mode = mode
        if 'r' in mode:
            if 'data' not in store:
                raise OSError('no such file')
            self.buf = io.StringIO(store['data'])
        else:
            self.buf = io.StringIO()

    def __enter__(self):
        return self.buf

    def __exit__(self, *a):
        if 'w' in self.mode:
            self.store['data'] = self.buf.getvalue()
        return False


def _with_store(store, counter):
    import uuid as _uuid

    def fresh():
        counter[0] += 1
        return _uuid.UUID(int=counter[0])
    msol.open = lambda path, mode='r': _MemFile(store, mode)
    msol.uuid.uuid4 = fresh


def _restore(old):
    msol.uuid.uuid4 = old
    del msol.open


def u_uuid_history(r1: List[bool], r2: List[bool], r3: List[bool]) -> bool:
    """UuidMap over three configure/regenerate runs with solver-chosen project subsets: a project
    present in consecutive runs keeps its GUID, distinct projects have distinct GUIDs (persisted
    through the real save/_load on an in-memory file; uuid4 -> fresh-value generator)
    pre: len(r1) == 3 and len(r2) == 3 and len(r3) == 3 and (RUNS == 3 or r3 == r2)
    post: _
    """
    store = {}
    old = msol.uuid.uuid4
    _with_store(store, [0])
    try:
        prev = {}
        ok = True
        for run in (r1, r2, r3):
            m = msol.UuidMap('mem')
            cur = {}
            sol = m['']
            for i in range(3):
                if run[i]:
                    cur[NAMES[i]] = m[NAMES[i]].hex
            m.save()
            vals = list(cur.values()) + [sol.hex]
            ok = ok and len(set(vals)) == len(vals)
            for k, v in cur.items():
                if k in prev and prev[k] != v:
                    ok = False
            prev = cur
    finally:
        _restore(old)
    return R(ok)


class _Env:
    srcdir = None

    def getvar(self, name, default=None):
        return default


class _Edge:
    def __init__(self, out):
        self.public_output = out


class _File:
    def __init__(self, creator=None):
        self.creator = creator


def d_solution(e01: bool, e02: bool, e12: bool, ext0: bool, ext2: bool, present1: bool) -> bool:
    """Solution.dependencies + Solution.write: every ProjectDependencies entry names a project of
    the same file, every project GUID is unique; a dependency on an output without a project is a
    configure error, a dependency on a plain source file is skipped
    pre: True
    post: _
    """
    from bfg9000.backends.msbuild.syntax import NoopProject
    store = {}
    old = msol.uuid.uuid4
    _with_store(store, [0])
    try:
        sol = msol.Solution(msol.UuidMap('mem'))
        outs = [_File(), _File(), _File()]
        for o in outs:
            o.creator = _Edge([o])
        src = _File(None)
        want = {0: [], 1: [0] if e01 else [], 2: ([0] if e02 else []) + ([1] if e12 else [])}
        raised = False
        for i in range(3):
            if i == 1 and not present1:
                continue
            deps = [outs[j] for j in want[i]]
            if (i == 0 and ext0) or (i == 2 and ext2):
                deps.append(src)
            try:
                proj = NoopProject(_Env(), name=NAMES[i], dependencies=sol.dependencies(deps))
            except RuntimeError:
                raised = True
                continue
            sol[outs[i]] = proj
        missing_dep = (not present1) and e12
        if raised != missing_dep:
            return R(False)
        out = StringIO()
        sol.write(out)
    finally:
        _restore(old)
    text = out.getvalue()
    guids = []
    deps_seen = []
    for line in text.split('\n'):
        t = line.strip()
        if t.startswith('Project("'):
            guids.append(t.rsplit('"', 2)[1])
        elif t.startswith('{') and ' = {' in t and '.' not in t.split(' = ')[0]:
            deps_seen.append(t.split(' = ')[0])
    ok = len(set(guids)) == len(guids) and len(guids) == (3 if present1 else (2 if not e12 else 2))
    if missing_dep:
        ok = len(set(guids)) == len(guids)
    for d in deps_seen:
        if d not in guids:
            ok = False
    n_edges = 0
    for i in want:
        if i == 1 and not present1:
            continue
        if i == 2 and missing_dep:
            continue
        n_edges += len(want[i])
    return R(ok and len(deps_seen) == n_edges)


def m_default_project(n_explicit: int, n_fallback: int, e0: int, e1: int) -> bool:
    """the msbuild post-rules hook that moves the default project to the front: whatever the
    default()/fallback sets are, every project is still in the solution afterwards (each with its
    own GUID) and the default one is listed first
    pre: 0 <= n_explicit <= 2 and 0 <= n_fallback <= 2 and 0 <= e0 < 3 and 0 <= e1 < 3 and e0 != e1
    post: _
    """
    from bfg9000.backends.msbuild.syntax import NoopProject
    from bfg9000.builtins import default as bdefault
    store = {}
    old = msol.uuid.uuid4
    _with_store(store, [0])
    try:
        sol = msol.Solution(msol.UuidMap('mem'))
        outs = [_File(), _File(), _File()]
        for i, o in enumerate(outs):
            o.creator = _Edge([o])
            o.all = [o]
            sol[o] = NoopProject(_Env(), name=NAMES[i])
        d = bdefault.DefaultOutputs()
        order = [e0, e1]
        for k in range(n_explicit):
            d.add(outs[order[k]], explicit=True)
        for k in range(n_fallback):
            d.add(outs[order[-1 - k]])

        class _B(dict):
            pass
        bdefault.msbuild_default(_B(defaults=d), sol, _Env())
        names = [p.name for p in sol]
        uu = [p.uuid_str for p in sol]
    finally:
        _restore(old)
    ok = sorted(names) == sorted(NAMES) and len(set(uu)) == 3
    if n_explicit > 0:
        ok = ok and names[0] == NAMES[order[0]]
    elif n_fallback > 0:
        ok = ok and names[0] == NAMES[order[-1 - (n_fallback - 1)]]
    return R(ok)


def x_split_vs_runtime(t: str) -> bool:
    """the repository's own split (used to read option strings on Windows) agrees with the MS C
    runtime rules on every argument text, e.g. a quoted section followed by more characters of
    the same argument ("a b"c); texts containing "" are left out (the runtime's doubled-quote
    rule inside quotes is a documented extension that split does not claim)
    pre: len(t) == N and no_ctl(t) and '""' not in t
    post: _
    """
    line = 'prog ' + t + SUF
    return R(wshell.split(line) == rmsvcrt.argv(line))

"""C05 -- distinct inputs never collide; implicit outputs stay inside the build directory.

Injectivity is proved through an explicit inverse (decode(within_directory(p)) == p), which keeps
the obligation single-input."""
import posixpath

from bfg9000.path import Path, Root
from bfg9000.builtins import path as bpath
from bfg9000.tools.cc import compiler as cccompiler
from bfg9000.file_types import SourceFile

from vpx.params import R, param, no_ctl

N = param('N', 3)
# known finding C05-F13: a path whose suffix starts with '~' (only reachable as './~x') is expanded
# to a home directory again by every operation that rebuilds the Path (stripext, reroot, parent...)
KF_TILDE = param('kf_tilde', False)
DIRS = ['x.int/', 'sub/x.int/', 'a/b/x.int/']
D = Path(DIRS[param('D', 0)])


def _mkpath(suffix, root=Root.builddir, directory=False):
    p = Path.__new__(Path)
    p.suffix = suffix
    p.root = root
    p.directory = directory
    p.destdir = False
    return p


def _norm_ok(s):
    """representation invariant of Path.suffix (what BasePath.__init__ establishes, see C12)"""
    if len(s) == 0 or chr(92) in s or s[1:2] == ':':
        return False
    if KF_TILDE and s[0] == '~':
        return False
    for c in s.split('/'):
        if c == '' or c == '.' or c == '..':
            return False
    return True


def _has_par(s):
    for c in s.split('/'):
        if c == 'PAR':
            return True
    return False


def _decode(out, d, leaf_literal=False):
    """inverse of within_directory: strip the directory, PAR -> .., resolve against its parent;
    leaf_literal: the last component is a file name (a stem `PAR`, from a source `PAR.c`, is not a
    rewritten parent reference: a file cannot be named `..`)"""
    pre = d.suffix + '/'
    if out.suffix == d.suffix:
        comps = []     # the path was the directory's own parent
    elif not out.suffix.startswith(pre):
        return None
    else:
        comps = out.suffix[len(pre):].split('/')
    back = [('..' if c == 'PAR' and not (leaf_literal and k == len(comps) - 1) else c)
            for k, c in enumerate(comps)]
    base = posixpath.dirname(d.suffix)
    return posixpath.normpath(posixpath.join(base, '/'.join(back)))


def w_contain(s: str) -> bool:
    """
    pre: len(s) == N and no_ctl(s) and _norm_ok(s)
    post: _
    """
    out = bpath.within_directory(_mkpath(s), D)
    ok = out.root == Root.builddir and (out.suffix == D.suffix or
                                        out.suffix.startswith(D.suffix + '/'))
    for c in out.suffix.split('/'):
        if c == '..' or c == '.' or c == '':
            ok = False
    return R(ok)


def w_inverse(s: str) -> bool:
    """
    pre: len(s) == N and no_ctl(s) and _norm_ok(s) and not _has_par(s)
    post: _
    """
    out = bpath.within_directory(_mkpath(s), D)
    return R(_decode(out, D) == s)


class _Builder:
    object_format = 'elf'
    lang = 'c'


class _Cc(cccompiler.CcCompiler):
    def __init__(self):
        self.builder = _Builder()


CC = _Cc()


def o_objname(s: str) -> bool:
    """default object name: directory components and stem of the source survive
    pre: len(s) == N and no_ctl(s) and _norm_ok(s)
    post: _
    """
    src = SourceFile(_mkpath(s, Root.srcdir), 'c')
    name = CC.default_name(src, None)
    obj = CC.output_file(name, None)
    return R(obj.path.root == Root.builddir and obj.path.suffix.endswith('.o') and
             obj.path.suffix[:-2] == posixpath.splitext(s)[0])


def o_objname_dir(s: str) -> bool:
    """the chain of BaseCompile.__init__: default_name -> within_directory -> output_file
    pre: len(s) == N and no_ctl(s) and _norm_ok(s) and not _has_par(s)
    post: _
    """
    src = SourceFile(_mkpath(s, Root.srcdir), 'c')
    name = CC.default_name(src, None)
    if not _norm_ok(name):
        return True     # source 'x/.c' style names: stem empty is impossible (splitext keeps it)
    name = bpath.within_directory(_mkpath(name), D).suffix
    obj = CC.output_file(name, None)
    if not obj.path.suffix.endswith('.o'):
        return R(False)
    # a leaf `PAR` is either the stem of a source `PAR.c` or the rewritten `..` of a "source" that
    # is an ancestor directory of D (which cannot be a file): both readings are inverses
    want = posixpath.splitext(s)[0]
    o = _mkpath(obj.path.suffix[:-2])
    return R(obj.path.root == Root.builddir and
             (_decode(o, D) == want or _decode(o, D, leaf_literal=True) == want))


def u_user_path(s: str) -> bool:
    """raw user string through the real Path constructor (normalisation, `..`, backslashes)
    pre: len(s) == N and no_ctl(s) and not s.startswith('~')
    post: _
    """
    try:
        p = Path(s, Root.srcdir)
    except ValueError:
        return True
    if p.root != Root.srcdir or p.suffix == '' or _has_par(p.suffix):
        return True
    if KF_TILDE and p.suffix[0] == '~':
        return True
    try:
        out = bpath.within_directory(p.reroot(), D)
    except ValueError as e:
        # './a:b' normalises to a suffix that looks drive-prefixed and is then rejected when the
        # path is rebuilt: configuration stops with an error, nothing is misplaced (the
        # inconsistency itself is C12's known finding C12-F6)
        return R('drives not supported' in str(e))
    ok = out.root == Root.builddir and (out.suffix == D.suffix or
                                        out.suffix.startswith(D.suffix + '/'))
    return R(ok and _decode(out, D) == p.suffix)


# --- duplicate outputs are a configuration error ---------------------------------------------
from typing import List
from bfg9000.backends.make.syntax import Makefile
from bfg9000.backends.ninja.syntax import NinjaFile

TNAMES = ['a', 'd/a b', 'c$x']


def _targets(ixs, as_path):
    out = []
    for k, i in enumerate(ixs):
        n = TNAMES[i]
        out.append(_mkpath(n) if as_path[k % len(as_path)] else n)
    return out


def _dup_expected(t1, t2):
    seen = set(t1)
    for i in t2:
        if i in seen:
            return True
        seen.add(i)
    return False


def r_dup_make(t1: List[int], t2: List[int], p1: bool, p2: bool) -> bool:
    """Makefile.rule: a second rule naming any target of an earlier (multi-target) rule, whether
    given as a string or as a Path, raises; disjoint rules are accepted
    pre: 1 <= len(t1) <= 3 and 1 <= len(t2) <= 2 and len(set(t1)) == len(t1)
    pre: all(0 <= i < 3 for i in t1) and all(0 <= i < 3 for i in t2)
    post: _
    """
    mk = Makefile('build.bfg')
    mk.rule(_targets(t1, [p1, p2]))
    try:
        mk.rule(_targets(t2, [p2, p1]))
        raised = False
    except ValueError:
        raised = True
    return R(raised == _dup_expected(t1, t2))


def r_dup_ninja(t1: List[int], t2: List[int], p1: bool, p2: bool) -> bool:
    """NinjaFile.build: same law for outputs
    pre: 1 <= len(t1) <= 3 and 1 <= len(t2) <= 2 and len(set(t1)) == len(t1)
    pre: all(0 <= i < 3 for i in t1) and all(0 <= i < 3 for i in t2)
    post: _
    """
    nf = NinjaFile('build.bfg')
    nf.build(_targets(t1, [p1, p2]), 'phony')
    try:
        nf.build(_targets(t2, [p2, p1]), 'phony')
        raised = False
    except ValueError:
        raised = True
    return R(raised == _dup_expected(t1, t2))

"""C07 -- depfile kernel: depfixer.emit_deps turns every prerequisite of a compiler-written depfile
into a target of its own, spelled exactly as Make will read it."""
from io import StringIO

from bfg9000 import depfixer

from vpx.params import R, param
from vpx.models import rdep

N = param('N', 4)
PREFIX = param('prefix', '')


def _ok_chars(t):
    return chr(0) not in t and chr(13) not in t


def d_extract(t: str) -> bool:
    """for every text in the depfile grammar the output is exactly `word:` per prerequisite
    (verbatim, in order); text outside the grammar is either rejected or still only yields rules
    pre: len(t) == N and _ok_chars(t)
    post: _
    """
    text = PREFIX + t
    want = rdep.deps(text)
    o = StringIO()
    try:
        depfixer.emit_deps(StringIO(text), o)
    except depfixer.ParseError:
        return R(want is None)          # well-formed input must be accepted
    if want is None:
        return True                     # liberal acceptance outside the grammar: nothing claimed
    return R(o.getvalue() == ''.join(w + ':\n' for w in want))


def d_idempotent_shape(t: str) -> bool:
    """the appended text is itself a sequence of prerequisite-free rules: re-reading
    depfile + output keeps the dependency list and adds nothing new
    pre: len(t) == N and _ok_chars(t)
    post: _
    """
    text = PREFIX + t
    want = rdep.deps(text)
    if want is None:
        return True
    o = StringIO()
    try:
        depfixer.emit_deps(StringIO(text), o)
    except depfixer.ParseError:
        return R(False)
    again = rdep.deps(text + o.getvalue())
    return R(again == want)

"""C09 -- saved configuration: EnvVarDict history invariant and snapshot round trips."""
import json
from typing import List, Tuple

from bfg9000 import environment as benv
from bfg9000.environment import EnvVarDict
from bfg9000.path import Path, Root, InstallRoot

from vpx.params import R, param, no_ctl

KEYS = ['A', 'B', 'C']
NI = param('NI', 2)          # initial entries
NO = param('NO', 3)          # operations
VL = param('VL', 1)          # max length of the symbolic values


def _apply(initial, changes):
    cur = dict(initial)
    for k, v in changes.items():
        if v is None:
            cur.pop(k, None)
        else:
            cur[k] = v
    return cur


def _jsonish(x):
    """what json.dump + json.load do to the structures EnvVarDict.to_json produces (the JSON text
    layer itself is the stdlib's C encoder, which would concretise symbolic strings)"""
    if isinstance(x, dict):
        return {str(k): _jsonish(v) for k, v in x.items()}
    if isinstance(x, (list, tuple)):
        return [_jsonish(i) for i in x]
    return x


O0 = param('O0', -1)        # partition: first operation
O1 = param('O1', -1)        # partition: second operation
INITS = [[], [(0, 0)], [(0, 0), (1, 1)], [(0, 1), (1, 1), (2, 0)]]
INIT = INITS[param('INIT', 0)]


def h_history(ops: List[Tuple[int, int, int]], s0: str, s1: str) -> bool:
    """for every history of dict operations (values: two arbitrary strings): initial (+) changes
    == current; after a JSON round trip the object is equal, has the same initial map and its
    recomputed changes still reproduce current; reset() restores the initial map
    pre: len(ops) == NO and len(s0) <= VL and len(s1) <= VL
    pre: all(0 <= o < 8 and 0 <= k < 3 and 0 <= v < 2 for o, k, v in ops)
    pre: (O0 < 0 or ops[0][0] == O0) and (O1 < 0 or ops[1][0] == O1)
    post: _
    """
    vals = [s0, s1]
    d = EnvVarDict({KEYS[k]: vals[v] for k, v in INIT})
    first = dict(d)
    for o, k, vi in ops:
        key = KEYS[k]
        v = vals[vi]
        if o == 0:
            d[key] = v
        elif o == 1:
            if key in d:
                del d[key]
        elif o == 2:
            d.pop(key, None)
        elif o == 3:
            d.setdefault(key, v)
        elif o == 4:
            d.update({key: v})
        elif o == 5:
            d.clear()
        elif o == 6:
            if len(d):
                d.popitem()
        elif o == 7:
            d.reset()
    ok = d.initial == first and _apply(d.initial, d.changes) == dict(d)
    j = EnvVarDict.from_json(_jsonish(d.to_json()))
    ok = ok and j == d and j.initial == d.initial and _apply(j.initial, j.changes) == dict(d)
    j.reset()
    ok = ok and dict(j) == first and j.changes == {}
    return R(ok)


ROOTS = [Root.srcdir, Root.builddir, Root.absolute, InstallRoot.prefix, InstallRoot.bindir]


def j_path_json(s: str, isdir: bool, ri: int) -> bool:
    """Path snapshots (srcdir, builddir, bfgdir, install dirs, toolchain path) survive the JSON form
    pre: len(s) <= param('N', 3) and no_ctl(s) and 0 <= ri < 5 and not s.startswith('~')
    post: _
    """
    root = ROOTS[ri]
    raw = ('/' + s) if root == Root.absolute else s
    if s[1:2] == ':':
        return True
    try:
        p = Path(raw, root, directory=isdir or None)
    except ValueError:
        return True
    if p.suffix.startswith('~') or p.suffix[1:2] == ':':
        return True     # known findings of C12 (re-expansion / drive form), not re-reported here
    data = _jsonish(p.to_json())
    q = Path.from_json(data)
    t = benv.Toolchain.from_json(_jsonish(benv.Toolchain(p).to_json()))
    return R(q == p and q.directory == p.directory and q.destdir == p.destdir and
             t.path == p and t.path.directory == p.directory)


def v_version_gate(v: int) -> bool:
    """a snapshot written by a newer format version is refused, never half-loaded
    pre: 0 <= v <= 40
    post: _
    """
    import io
    import os
    state = {'version': v, 'data': {}}
    old_open = getattr(benv, 'open', None)
    benv.open = lambda *a, **k: io.StringIO(json.dumps({'version': int(v), 'data': {}}))
    try:
        benv.Environment.load('x')
    except benv.EnvVersionError:
        return R(v > benv.Environment.version)
    except Exception:
        # an (empty) snapshot of a supported version fails later for lack of data: fine
        return R(v <= benv.Environment.version)
    finally:
        if old_open is None:
            del benv.open
        else:
            benv.open = old_open
    return R(v <= benv.Environment.version)


# ---- toolchain replay starts from the configure-time variables ---------------------------------
from bfg9000 import build as bbuild
from bfg9000.build_inputs import Regenerating


class _TEnv:
    def __init__(self, variables):
        self.variables = variables
        self.toolchain = benv.Toolchain()

    def reload(self):
        benv.Environment.reload(self)


def t_toolchain_replay(ops: List[Tuple[int, int, int]], s0: str, s1: str, mode: int) -> bool:
    """whenever build files are regenerated (explicitly or lazily) the toolchain script is replayed
    on the variables *as they were at configure time*, whatever an earlier replay did to them; on
    the first configure the toolchain path is recorded instead
    pre: len(ops) <= NO and len(s0) <= VL and len(s1) <= VL and 0 <= mode < 3
    pre: all(0 <= o < 7 and 0 <= k < 3 and 0 <= v < 2 for o, k, v in ops)
    post: _
    """
    vals = [s0, s1]
    d = EnvVarDict({KEYS[k]: vals[v] for k, v in INIT})
    first = dict(d)
    for o, k, vi in ops:
        key = KEYS[k]
        if o == 0:
            d[key] = vals[vi]
        elif o == 1:
            d.pop(key, None)
        elif o == 2:
            d.setdefault(key, vals[vi])
        elif o == 3:
            d.clear()
        elif o == 4:
            d.update({key: vals[vi]})
    env = _TEnv(d)
    seen = []
    old = bbuild.execute_file
    old_ctx = bbuild.builtin.ToolchainContext
    bbuild.execute_file = lambda context, path, **kw: seen.append(dict(env.variables))
    bbuild.builtin.ToolchainContext = lambda e, regenerating: None
    try:
        if mode == 0:
            m = Regenerating.false
        elif mode == 1:
            m = Regenerating.lazy
        else:
            m = Regenerating.true
        bbuild.load_toolchain(env, 'tc.bfg', m)
    finally:
        bbuild.execute_file = old
        bbuild.builtin.ToolchainContext = old_ctx
    if len(seen) != 1:
        return R(False)
    if mode == 0:
        return R(env.toolchain.path == 'tc.bfg' and seen[0] == dict(d))
    return R(seen[0] == first and env.toolchain.path is None)


# ---- snapshots written by older format versions load to the same configuration -------------------
import copy as _copy
import io as _io


def _v17(arg, shared, static, compdb, val, noinit=False):
    return {
        'bfgdir': ['/bfgdir/', 'absolute', False], 'backend': 'make', 'backend_version': '4.3',
        'host_platform': {'genus': 'linux', 'species': 'linux', 'arch': 'x86_64'},
        'target_platform': {'genus': 'linux', 'species': 'linux', 'arch': 'x86_64'},
        'srcdir': ['/src dir/', 'absolute', False], 'builddir': ['/build/', 'absolute', False],
        'install_dirs': {
            'prefix': ['/opt/p/', 'absolute', False], 'exec_prefix': ['./', 'prefix', False],
            'bindir': ['bin/', 'exec_prefix', False], 'libdir': ['lib/', 'exec_prefix', False],
            'includedir': ['include/', 'prefix', False], 'datadir': ['share/', 'prefix', False],
            'mandir': ['man/', 'datadir', False]},
        'toolchain': {'path': None}, 'mopack': [], 'library_mode': [shared, static],
        'compdb': compdb, 'extra_args': [arg],
        'variables': {'initial': {} if noinit else {'CC': 'gcc'}, 'current': {'CC': val}},
    }


def _downgrade(d, v):
    """what format version v stored for this configuration: the inverse of the format history
    written from the release notes in Environment.load's comments (reference model)"""
    d = _copy.deepcopy(d)
    if v < 17:
        del d['install_dirs']['datadir']
        del d['install_dirs']['mandir']
    if v < 16:
        del d['compdb']
    if v < 15:
        del d['mopack']
        var = d.pop('variables')
        d['initial_variables'] = var['initial']
        d['variables'] = var['current']
    if v < 14:
        for i in ('host_platform', 'target_platform'):
            d[i] = d[i]['species']
    if v < 13:
        del d['initial_variables']
        del d['toolchain']
    if v < 12:
        d['platform'] = d.pop('host_platform')
        del d['target_platform']
    if v < 11:
        for i in ('bfgdir', 'srcdir', 'builddir'):
            d[i] = d[i][:-1]
        for i in d['install_dirs']:
            d['install_dirs'][i] = d['install_dirs'][i][:-1]
    if v < 10:
        del d['install_dirs']['exec_prefix']
        for i in ('bindir', 'libdir'):
            d['install_dirs'][i][1] = 'prefix'
    if v < 9:
        del d['library_mode']
    if v < 8:
        del d['extra_args']
    if v < 7:
        d['bfgpath'] = ['/bfgdir/bfg9000', 'absolute']
        del d['bfgdir']
    if v < 6:
        del d['backend_version']
        d['bfgpath'] = '/bfgdir/bfg9000'
    if v < 5:
        d['srcdir'] = '/src dir'
        d['builddir'] = '/build'
    return d


class _FakeJson:
    def __init__(self, state):
        self.state = state

    def load(self, f):
        return self.state


def g_upgrade(v: int, arg: str, shared: bool, static: bool, compdb: bool, val: str,
              noinit: bool = False) -> bool:
    """a snapshot written by any older format version (4..17) loads to the configuration it
    recorded: every setting that version stored is kept (project arguments since 8, library mode
    since 9, compdb switch since 16, initial variables since 13, paths and install directories
    always), only settings the version did not have get the documented defaults
    pre: 4 <= v <= 17 and len(arg) <= VL and len(val) <= VL
    post: _
    """
    # noinit: the configuration was made with an empty initial environment (env -i)
    full = _v17(arg, shared, static, compdb, val, noinit)
    state = {'version': v, 'data': _downgrade(full, v)}
    old_open = getattr(benv, 'open', None)
    old_json = benv.json
    benv.open = lambda *a, **k: _io.StringIO('')
    benv.json = _FakeJson(state)
    try:
        env = benv.Environment.load('x')
    finally:
        benv.json = old_json
        if old_open is None:
            del benv.open
        else:
            benv.open = old_open
    ok = env.backend == 'make'
    ok = ok and env.extra_args == ([arg] if v >= 8 else [])
    ok = ok and tuple(env.library_mode) == ((shared, static) if v >= 9 else (True, False))
    ok = ok and env.compdb == (compdb if v >= 16 else True)
    ok = ok and dict(env.variables) == {'CC': val}
    ok = ok and env.variables.initial == (({} if noinit else {'CC': 'gcc'}) if v >= 13 else {'CC': val})
    ok = ok and env.srcdir.suffix == '/src dir' and env.builddir.suffix == '/build' and \
        env.bfgdir.suffix == '/bfgdir' and env.srcdir.root == Root.absolute
    dirs = env.install_dirs
    ok = ok and dirs[InstallRoot.prefix].suffix == '/opt/p' and \
        dirs[InstallRoot.bindir].root == InstallRoot.exec_prefix and \
        dirs[InstallRoot.bindir].suffix == 'bin' and \
        dirs[InstallRoot.includedir].root == InstallRoot.prefix and \
        dirs[InstallRoot.exec_prefix].root == InstallRoot.prefix and \
        InstallRoot.mandir in dirs and InstallRoot.datadir in dirs
    ok = ok and env.host_platform.name == 'linux' and env.target_platform.name == 'linux'
    ok = ok and env.toolchain.path is None and env.mopack == []
    return R(ok)


# ---- a toolchain file's install_dirs() only counts at configure time -----------------------------
from bfg9000.builtins import toolchain as btoolchain


class _TCEnv:
    def __init__(self):
        self.install_dirs = {InstallRoot.prefix: Path('/cmdline', Root.absolute)}


class _TCContext:
    def __init__(self, env, regenerating):
        self.env = env
        self.regenerating = regenerating


def d_install_dirs_replay(mode: int, s: str) -> bool:
    """install_dirs(prefix=...) in a toolchain file sets the directory on the first configure
    (where the command line is applied afterwards); when the toolchain file is replayed for an
    explicit *or lazy* regeneration the saved directories -- which include what the command line
    chose -- are left alone
    pre: 0 <= mode < 3 and len(s) <= VL and no_ctl(s) and '/' not in s and chr(92) not in s
    pre: s not in ('.', '..') and not s.startswith('~') and s[1:2] != ':'
    post: _
    """
    env = _TCEnv()
    m = [Regenerating.false, Regenerating.lazy, Regenerating.true][mode]
    btoolchain.install_dirs(_TCContext(env, m), prefix='/opt/' + s)
    got = env.install_dirs[InstallRoot.prefix]
    if mode == 0:
        return R(got.suffix == ('/opt/' + s if s else '/opt') and got.root == Root.absolute)
    return R(got.suffix == '/cmdline')

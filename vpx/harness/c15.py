"""C15 -- install / uninstall place and remove exactly the declared files (mapping kernel).

A real Environment (tools detected once at import, concretely) and the real install builtins and
Make / Ninja install-rule hooks; file names, the directory= argument, the install prefixes and
DESTDIR are symbolic strings."""
import os
import posixpath
from io import StringIO

os.environ['PATH'] = '/venv/bin:' + os.environ.get('PATH', '')

from bfg9000 import file_types as ft
from bfg9000.environment import Environment
from bfg9000.build_inputs import BuildInputs
from bfg9000.builtins import builtin, init as builtin_init
from bfg9000.builtins import install as binstall
from bfg9000.backends.make.syntax import Makefile, Syntax as MS
from bfg9000.backends.ninja.syntax import NinjaFile
from bfg9000.path import Path, Root, InstallRoot, abspath

from vpx.params import R, param, no_ctl
from vpx.models import rsh, rmake, rninja

builtin_init()
N = param('N', 2)
KIND = param('kind', 0)


def _mkenv(backend):
    env = Environment(abspath('/bfgdir'), backend, None, abspath('/srcdir'), abspath('/builddir'))
    env.finalize({InstallRoot.prefix: abspath('/usr/local')}, (True, False), True)
    env.tool('doppel')
    env.tool('rm')
    return env


ENV = _mkenv('make')
ROOT_OF = {0: InstallRoot.bindir, 1: InstallRoot.libdir, 2: InstallRoot.includedir,
           3: InstallRoot.mandir, 4: InstallRoot.libdir}


def _mkpath(suffix, root=Root.builddir):
    p = Path.__new__(Path)
    p.suffix = suffix
    p.root = root
    p.directory = False
    p.destdir = False
    return p


def _name_ok(s):
    return len(s) > 0 and '/' not in s and chr(92) not in s and s != '.' and s != '..' and \
        s[0] != '~' and s[1:2] != ':'


def _mkfile(kind, name):
    if kind == 0:
        return ft.Executable(_mkpath('sub/' + name), 'elf', 'c')
    if kind == 1:
        return ft.SharedLibrary(_mkpath('lib' + name + '.so'), 'elf', 'c')
    if kind == 2:
        return ft.HeaderFile(_mkpath('include/' + name, Root.srcdir), 'c')
    if kind == 3:
        return ft.ManPage(_mkpath('doc/' + name, Root.srcdir), '1')
    return ft.StaticLibrary(_mkpath('lib' + name + '.a'), 'elf', 'c')


def _expected_rel(kind, name):
    """path below the install root of the kind: build-tree files keep their directory, source-tree
    files are installed by basename, man pages below man<level>/"""
    return ['sub/' + name, 'lib' + name + '.so', name, 'man1/' + name, 'lib' + name + '.a'][kind]


def i_installify(name: str, d: str) -> bool:
    """the installed location of a file of each installable kind: install root of the kind /
    directory= argument / suffix, flagged for DESTDIR
    pre: len(name) == N and len(d) <= param('M', 2) and no_ctl(name) and no_ctl(d) and _name_ok(name)
    pre: d == '' or (_name_ok(d))
    post: _
    """
    f = _mkfile(KIND, name)
    t = binstall.installify(f, directory=d or None)
    want = posixpath.normpath(posixpath.join(d, _expected_rel(KIND, name)))
    return R(t.path.root == ROOT_OF[KIND] and t.path.suffix == want and t.path.destdir is True and
             type(t) is type(f))


def _vars_of(mk):
    """variables of the `path` section as Make reads them (real _write_variable + rmake)"""
    out = []
    from bfg9000.backends.make.syntax import Section
    for name, value in mk._global_variables[Section.path] + mk._global_variables[Section.command]:
        w = mk.writer(StringIO())
        syn = MS.clean if (name, value) in mk._global_variables[Section.path] else MS.shell
        mk._write_variable(w, name, value, syn)
        text = w.stream.getvalue()
        head = name.name + ' := '
        if not text.startswith(head) or not text.endswith('\n'):
            return None
        val = rmake.assign_value(text[len(head):-1], out)
        if val is None:
            return None
        out.append((name.name, val))
    return out


def _recipe_argvs(mk, target, extra_vars):
    for r in mk._rules:
        if r.targets == [target]:
            res = []
            vars_ = _vars_of(mk)
            if vars_ is None:
                return None
            for cmd in r.recipe:
                w = mk.writer(StringIO())
                w.write_shell(cmd)
                line = rmake.recipe(w.stream.getvalue(), list(extra_vars) + vars_)
                if line is None:
                    return None
                a = rsh.argv(line)
                if a is None:
                    return None
                res.append(a)
            return res
    return None


def m_install_make(name: str, pfx: str, dest: str) -> bool:
    """Make `install` / `uninstall`: with arbitrary prefix and DESTDIR values the copy tool is
    handed the built file and exactly DESTDIR + dir + '/' + suffix; a DESTDIR given on the make
    command line is honoured; uninstall removes exactly what install created
    pre: len(name) == N and no_ctl(name) and _name_ok(name)
    pre: len(pfx) <= param('M', 2) and no_ctl(pfx) and (pfx == '' or _name_ok(pfx))
    pre: len(dest) <= param('M', 2) and no_ctl(dest) and '/' not in dest and chr(92) not in dest
    post: _
    """
    env = ENV
    old = dict(env.install_dirs)
    pre = _mkpath('/opt/' + pfx, Root.absolute)
    pre.directory = True
    env.install_dirs = dict(old)
    env.install_dirs[InstallRoot.prefix] = pre
    try:
        build = BuildInputs(env, Path('build.bfg', Root.srcdir))
        f = _mkfile(KIND, name)
        build['install'].add(f)
        mk = Makefile('build.bfg', destdir=True)
        binstall.make_install_rule(build, mk, env)
    finally:
        env.install_dirs = old
    cmdline = (('DESTDIR', '/stage' + dest),)
    inst = _recipe_argvs(mk, 'install', cmdline)
    unin = _recipe_argvs(mk, 'uninstall', cmdline)
    if inst is None or unin is None or len(inst) < 1 or len(unin) != 1:
        return R(False)
    rootdir = {0: '/opt/' + pfx + '/bin', 1: '/opt/' + pfx + '/lib', 2: '/opt/' + pfx + '/include',
               3: '/opt/' + pfx + '/share/man', 4: '/opt/' + pfx + '/lib'}[KIND]
    rootdir = posixpath.normpath(rootdir)
    want_dst = '/stage' + dest + rootdir + '/' + _expected_rel(KIND, name)
    src = f.path.suffix if f.path.root == Root.builddir else '/srcdir/' + f.path.suffix
    a = inst[0]
    ok = a[-2:] == [src, want_dst] and a[0] == 'doppel' and '-p' in a
    ok = ok and unin[0][:2] == ['rm', '-f'] and unin[0][2:] == [want_dst]
    return R(ok)

"""C15 -- install / uninstall place and remove exactly the declared files (mapping kernel).

A real Environment (tools detected once at import, concretely) and the real install builtins and
Make / Ninja install-rule hooks; file names, the directory= argument, the install prefixes and
DESTDIR are symbolic strings."""
import os
import posixpath
from io import StringIO

os.environ['PATH'] = '/venv/bin:' + os.environ.get('PATH', '')

from bfg9000 import file_types as ft
from bfg9000.environment import Environment
from bfg9000.build_inputs import BuildInputs
from bfg9000.builtins import builtin, init as builtin_init
from bfg9000.builtins import install as binstall
from bfg9000.backends.make.syntax import Makefile, Syntax as MS
from bfg9000.backends.ninja.syntax import NinjaFile
from bfg9000.path import Path, Root, InstallRoot, abspath

from vpx.params import R, param, no_ctl
from vpx.models import rsh, rmake, rninja

builtin_init()
N = param('N', 2)
KIND = param('kind', 0)
# known finding C15-F16: a single quote in DESTDIR / an install directory breaks '$(DESTDIR)$(dir)/x'
KF_QUOTE = param('kf_quote', False)
NSEQ = param('NSEQ', 3)


def _mkenv(backend):
    env = Environment(abspath('/bfgdir'), backend, None, abspath('/srcdir'), abspath('/builddir'))
    env.finalize({InstallRoot.prefix: abspath('/usr/local')}, (True, False), True)
    env.tool('doppel')
    env.tool('rm')
    return env


ENV = _mkenv('make')
ROOT_OF = {0: InstallRoot.bindir, 1: InstallRoot.libdir, 2: InstallRoot.includedir,
           3: InstallRoot.mandir, 4: InstallRoot.libdir, 5: InstallRoot.mandir}


def _mkpath(suffix, root=Root.builddir):
    p = Path.__new__(Path)
    p.suffix = suffix
    p.root = root
    p.directory = False
    p.destdir = False
    return p


def _name_ok(s):
    return len(s) > 0 and '/' not in s and chr(92) not in s and s != '.' and s != '..' and \
        s[0] != '~' and s[1:2] != ':'


def _mkfile(kind, name):
    if kind == 0:
        return ft.Executable(_mkpath('sub/' + name), 'elf', 'c')
    if kind == 1:
        return ft.SharedLibrary(_mkpath('lib' + name + '.so'), 'elf', 'c')
    if kind == 2:
        return ft.HeaderFile(_mkpath('include/' + name, Root.srcdir), 'c')
    if kind == 3:
        return ft.ManPage(_mkpath('doc/' + name, Root.srcdir), '1')
    if kind == 5:
        # a generated (e.g. gzip-compressed) man page living in a build subdirectory
        return ft.ManPage(_mkpath('doc/man/' + name), '3')
    return ft.StaticLibrary(_mkpath('lib' + name + '.a'), 'elf', 'c')


def _expected_rel(kind, name):
    """path below the install root of the kind: build-tree files keep their directory, source-tree
    files are installed by basename, man pages below man<level>/"""
    return ['sub/' + name, 'lib' + name + '.so', name, 'man1/' + name, 'lib' + name + '.a',
            'man3/' + name][kind]


def i_installify(name: str, d: str) -> bool:
    """the installed location of a file of each installable kind: install root of the kind /
    directory= argument / suffix, flagged for DESTDIR
    pre: len(name) == N and len(d) <= param('M', 2) and no_ctl(name) and no_ctl(d) and _name_ok(name)
    pre: d == '' or (_name_ok(d))
    post: _
    """
    f = _mkfile(KIND, name)
    t = binstall.installify(f, directory=d or None)
    want = posixpath.normpath(posixpath.join(d, _expected_rel(KIND, name)))
    return R(t.path.root == ROOT_OF[KIND] and t.path.suffix == want and t.path.destdir is True and
             type(t) is type(f))


def _vars_of(mk):
    """variables of the `path` section as Make reads them (real _write_variable + rmake)"""
    out = []
    from bfg9000.backends.make.syntax import Section
    for name, value in mk._global_variables[Section.path] + mk._global_variables[Section.command]:
        w = mk.writer(StringIO())
        syn = MS.clean if (name, value) in mk._global_variables[Section.path] else MS.shell
        mk._write_variable(w, name, value, syn)
        text = w.stream.getvalue()
        head = name.name + ' := '
        if not text.startswith(head) or not text.endswith('\n'):
            return None
        val = rmake.assign_value(text[len(head):-1], out)
        if val is None:
            return None
        out.append((name.name, val))
    return out


def _recipe_argvs(mk, target, extra_vars):
    for r in mk._rules:
        if r.targets == [target]:
            res = []
            vars_ = _vars_of(mk)
            if vars_ is None:
                return None
            for cmd in r.recipe:
                w = mk.writer(StringIO())
                w.write_shell(cmd)
                line = rmake.recipe(w.stream.getvalue(), list(extra_vars) + vars_)
                if line is None:
                    return None
                a = rsh.argv(line)
                if a is None:
                    return None
                res.append(a)
            return res
    return None


WHICH = param('which', 'name')      # which of the three strings is symbolic in this obligation


def m_install_make(sym: str) -> bool:
    """Make `install` / `uninstall`: with arbitrary prefix and DESTDIR values the copy tool is
    handed the built file and exactly DESTDIR + dir + '/' + suffix; a DESTDIR given on the make
    command line is honoured; uninstall removes exactly what install created
    pre: len(sym) == N and no_ctl(sym) and '/' not in sym and chr(92) not in sym
    pre: WHICH == 'dest' or _name_ok(sym)
    pre: not (KF_QUOTE and WHICH != 'name' and chr(39) in sym)
    post: _
    """
    name, pfx, dest = 'x y', 'p q', 'd e'
    if WHICH == 'name':
        name = sym
    elif WHICH == 'pfx':
        pfx = sym
    else:
        dest = sym
    env = ENV
    old = dict(env.install_dirs)
    pre = _mkpath('/opt' + ('/' + pfx if pfx else ''), Root.absolute)
    pre.directory = True
    env.install_dirs = dict(old)
    env.install_dirs[InstallRoot.prefix] = pre
    try:
        build = BuildInputs(env, Path('build.bfg', Root.srcdir))
        f = _mkfile(KIND, name)
        build['install'].add(f)
        mk = Makefile('build.bfg', destdir=True)
        binstall.make_install_rule(build, mk, env)
    finally:
        env.install_dirs = old
    cmdline = (('DESTDIR', '/stage' + dest), ('srcdir', '/srcdir'))
    inst = _recipe_argvs(mk, 'install', cmdline)
    unin = _recipe_argvs(mk, 'uninstall', cmdline)
    if inst is None or unin is None or len(inst) < 1 or len(unin) != 1:
        return R(False)
    base = '/opt' + ('/' + pfx if pfx else '')
    rootdir = base + {0: '/bin', 1: '/lib', 2: '/include', 3: '/share/man', 4: '/lib'}[KIND]
    want_dst = '/stage' + dest + rootdir + '/' + _expected_rel(KIND, name)
    src = f.path.suffix if f.path.root == Root.builddir else '/srcdir/' + f.path.suffix
    a = inst[0]
    # a file directly in the build directory is named './<file>' on the command line
    ok = (len(a) >= 2 and a[-1] == want_dst and a[-2] in (src, './' + src) and a[0] == 'doppel'
          and '-p' in a)
    ok = ok and unin[0][:2] == ['rm', '-f'] and unin[0][2:] == [want_dst]
    return R(ok)


ENVN = _mkenv('ninja')


def _nvars_of(nf):
    from bfg9000.backends.ninja.syntax import Section, Syntax as NS
    out = [('srcdir', '/srcdir')]
    for sec in (Section.path, Section.command):
        for name, value in nf._variables[sec]:
            w = nf.writer(StringIO())
            nf._write_variable(w, name, value, NS.clean if sec == Section.path else NS.shell)
            text = w.stream.getvalue()
            head = name.name + ' = '
            if not text.startswith(head) or not text.endswith('\n'):
                return None
            val = rninja.value(text[len(head):-1], out)
            if val is None:
                return None
            out.append((name.name, val))
    return out


def _ninja_cmds(nf, output, extra):
    vars_ = _nvars_of(nf)
    if vars_ is None:
        return None
    for b in nf._builds:
        if b.outputs == [output]:
            for k, v in b.variables.items():
                if k.name == 'cmd':
                    w = nf.writer(StringIO())
                    nf._write_variable(w, k, v, indent=1)
                    text = w.stream.getvalue()
                    head = '  cmd = '
                    if not text.startswith(head) or not text.endswith('\n'):
                        return None
                    # a command-line style override is not available in ninja: DESTDIR comes from
                    # the environment at configure time and is written as a variable
                    line = rninja.value(text[len(head):-1], list(extra) + vars_)
                    if line is None:
                        return None
                    p = rsh.parse(line)
                    if p is None:
                        return None
                    return [argv for assigns, argv in p]
    return None


def n_install_ninja(sym: str) -> bool:
    """Ninja `install` / `uninstall`: same mapping through the generic command rule
    pre: len(sym) == N and no_ctl(sym) and '/' not in sym and chr(92) not in sym
    pre: WHICH == 'dest' or _name_ok(sym)
    pre: not (KF_QUOTE and chr(39) in sym)
    post: _
    """
    name, pfx, dest = 'x y', 'p q', 'd e'
    if WHICH == 'pfx':
        pfx = sym
    else:
        dest = sym
    env = ENVN
    old = dict(env.install_dirs)
    oldv = env.variables.get('DESTDIR')
    pre = _mkpath('/opt' + ('/' + pfx if pfx else ''), Root.absolute)
    pre.directory = True
    env.install_dirs = dict(old)
    env.install_dirs[InstallRoot.prefix] = pre
    if param('dirs_reversed', False):
        # a toolchain file can re-insert entries: the mapping's own order is not the dependency
        # order of the roots (bindir -> exec_prefix -> prefix), which Ninja needs at read time
        env.install_dirs = dict(reversed(list(env.install_dirs.items())))
    dict.__setitem__(env.variables, 'DESTDIR', '/stage' + dest)
    try:
        build = BuildInputs(env, Path('build.bfg', Root.srcdir))
        f = _mkfile(KIND, name)
        build['install'].add(f)
        nf = NinjaFile('build.bfg', destdir=True)
        binstall.ninja_install_rule(build, nf, env)
    finally:
        env.install_dirs = old
        if oldv is None:
            dict.pop(env.variables, 'DESTDIR', None)
        else:
            dict.__setitem__(env.variables, 'DESTDIR', oldv)
    inst = _ninja_cmds(nf, 'install', ())
    unin = _ninja_cmds(nf, 'uninstall', ())
    if inst is None or unin is None or len(inst) < 1 or len(unin) != 1:
        return R(False)
    base = '/opt' + ('/' + pfx if pfx else '')
    rootdir = base + {0: '/bin', 1: '/lib', 2: '/include', 3: '/share/man', 4: '/lib'}[KIND]
    want_dst = '/stage' + dest + rootdir + '/' + _expected_rel(KIND, name)
    src = f.path.suffix if f.path.root == Root.builddir else '/srcdir/' + f.path.suffix
    a = inst[0]
    # a file directly in the build directory is named './<file>' on the command line
    ok = (len(a) >= 2 and a[-1] == want_dst and a[-2] in (src, './' + src) and a[0] == 'doppel'
          and '-p' in a)
    ok = ok and unin[0][:2] == ['rm', '-f'] and unin[0][2:] == [want_dst]
    return R(ok)


from typing import List


def h_header_dir(k: int) -> bool:
    """an installed header directory with files in nested subdirectories (include/a.h,
    include/<s>/b.h, include/det/in/c.h; <s> one of four concrete names -- a symbolic name makes
    relpath's component comparisons explode, and single symbolic names are covered by
    m_install_make): install copies them into the include root keeping the relative paths
    (doppel -ipN -C <dir> <relative paths> <dest>), and uninstall removes exactly the files that
    command creates
    pre: 0 <= k < 4
    post: _
    """
    if k == 0:
        s = 'd'
    elif k == 1:
        s = 'd e'
    elif k == 2:
        s = 'x$y'
    else:
        s = '%#'
    env = ENV
    build = BuildInputs(env, Path('build.bfg', Root.srcdir))
    rels = ['a.h', s + '/b.h', 'det/in/c.h']
    files = [ft.HeaderFile(_mkpath('include/' + r, Root.srcdir), 'c') for r in rels]
    dpath = _mkpath('include', Root.srcdir)
    dpath.directory = True
    d = ft.HeaderDirectory(dpath, files, langs=['c'])
    build['install'].add(d)
    mk = Makefile('build.bfg', destdir=True)
    binstall.make_install_rule(build, mk, env)
    cmdline = (('DESTDIR', '/stage'), ('srcdir', '/srcdir'))
    inst = _recipe_argvs(mk, 'install', cmdline)
    unin = _recipe_argvs(mk, 'uninstall', cmdline)
    if inst is None or unin is None or len(inst) != 1 or len(unin) != 1:
        return R(False)
    dest = '/stage/usr/local/include'
    want_i = ['doppel', '-m', '644', '-ipN', '-C', '/srcdir/include'] + rels + [dest]
    want_u = ['rm', '-f'] + [dest + '/' + r for r in rels]
    ok = inst[0] == want_i and unin[0] == want_u
    return R(ok)


from bfg9000.tools import patchelf as _patchelf
from bfg9000 import options as _opts


def x_post_install(seq: List[int]) -> bool:
    """the run-time search path of an installed program is rewritten (patchelf --set-rpath) exactly
    when its build-tree value differs from the installed one: some project shared library on the
    link line (build-relative $ORIGIN path vs. installed libdir) or some rpath_dir that does not
    apply in both situations -- wherever those options stand in the list; the new value lists the
    installed directories in option order
    pre: 1 <= len(seq) <= NSEQ and all(0 <= k < 4 for k in seq)
    post: _
    """
    env = ENV
    lib = ft.SharedLibrary(_mkpath('sub/libfoo.so'), 'elf', 'c')
    prog = ft.Executable(_mkpath('bin/prog'), 'elf', 'c')
    db = binstall.InstallOutputs(env)
    db.add(prog)
    db.add(lib)
    p1 = Path('/opt/one', Root.absolute)
    p2 = Path('/opt/two', Root.absolute)
    options = []
    want = []
    changed = False
    for k in seq:
        if k == 0:
            options.append(_opts.lib(lib))
            want.append('lib')
            changed = True
        elif k == 1:
            options.append(_opts.rpath_dir(p1))
            want.append('one')
        elif k == 2:
            options.append(_opts.rpath_dir(p2, _opts.RpathWhen.installed))
            want.append('two')
            changed = True
        else:
            options.append(_opts.rpath_dir(p2, _opts.RpathWhen.uninstalled))
            changed = True
    r = _patchelf.post_install(env, options, prog, db)
    if not changed:
        return R(r is None)
    if r is None or len(r) != 4 or r[1] != '--set-rpath':
        return R(False)
    got = []
    val = r[2]
    bits = val.bits if hasattr(val, 'bits') else [val]
    for b in bits:
        if isinstance(b, Path):
            got.append('lib' if b.root == InstallRoot.libdir else 'one' if b.suffix == '/opt/one'
                       else 'two')
    uniq = []
    for w in want:
        if w not in uniq:
            uniq.append(w)
    return R(got == uniq and r[3] == db.host[prog].path)


def d_dep_closure(edges: List[bool], explicit: List[bool]) -> bool:
    """every run-time / link-time dependency of an installed file is installed too (transitively),
    nothing else is, and each file gets one destination: DAG over 4 binaries (edges from lower to
    higher index), any subset passed to install()
    pre: len(edges) == 6 and len(explicit) == 4
    pre: param('E0', -1) < 0 or (explicit[0] == bool(param('E0', 0) & 1) and explicit[1] == bool(param('E0', 0) & 2))
    post: _
    """
    bins = [ft.Executable(_mkpath('p%d' % i), 'elf', 'c') if i == 0 else
            ft.SharedLibrary(_mkpath('libq%d.so' % i), 'elf', 'c') for i in range(4)]
    adj = {i: [] for i in range(4)}
    k = 0
    for a in range(4):
        for b in range(a + 1, 4):
            if edges[k]:
                adj[a].append(b)
                (bins[a].runtime_deps if (a + b) % 2 else bins[a].linktime_deps).append(bins[b])
            k += 1
    out = binstall.InstallOutputs(ENV)
    for i in range(4):
        if explicit[i]:
            out.add(bins[i])
    want = set()
    stack = [i for i in range(4) if explicit[i]]
    while stack:
        x = stack.pop()
        if x in want:
            continue
        want.add(x)
        stack.extend(adj[x])
    got = [i for i in range(4) if any(b is bins[i] for b in out.host)]
    ok = sorted(got) == sorted(want) and len(list(out.host)) == len(want)
    for i in got:
        h = out.host[bins[i]]
        root = InstallRoot.bindir if i == 0 else InstallRoot.libdir
        ok = ok and h.path.root == root and h.path.suffix == bins[i].path.suffix and h.path.destdir
    # every installed file that needs post-processing (run-time path rewriting) gets it, whether it
    # was named explicitly or pulled in as a dependency
    for i in range(4):
        bins[i].post_install = (lambda k: (lambda outputs: ['fixup', str(k)]))(i)

    class _BF:
        Section = Makefile.Section

        def cmd_var(self, cmd):
            return Makefile('x').cmd_var(cmd)

        def variable(self, name, value, section, exist_ok):
            return name
    lines = binstall._install_files(out, _BF(), ENV)
    fixed = sorted(int(l[1]) for l in lines if isinstance(l, list) and l[:1] == ['fixup'])
    ok = ok and fixed == sorted(want)
    return R(ok and bool(out) == any(explicit))

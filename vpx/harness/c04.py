"""C04 -- file names with special characters denote the same file in every position.

One path component `c` is symbolic; the Path objects are built directly under the representation
invariant (C12 establishes it).  The text written by the real Make / Ninja writers in each
syntactic position is decoded by rmake / rninja (+ rsh for command positions) and must give back
exactly the realised path."""
from io import StringIO

from bfg9000 import safe_str
from bfg9000.backends.make import syntax as msyntax
from bfg9000.backends.make.syntax import Makefile, Syntax as MS, Variable, qvar, Function, Call
from bfg9000.backends.make import writer as mwriter
from bfg9000.backends.ninja.syntax import NinjaFile, Syntax as NS
from bfg9000.builtins import find as bfind
from bfg9000.path import Path, Root

from vpx.params import R, param
from vpx.models import rsh, rmake, rninja

N = param('N', 2)
SHAPE = param('shape', 0)        # 0: d/<c>   1: <c>   2: <c>/leaf.o
ROOTI = param('rooti', 0)        # 0: builddir, 1: srcdir
# per-backend unrepresentable characters (established at run time by the representability probe
# with hand-written reference Makefiles, vpx.props.c04.probe) and known-finding classes
EXCL = param('excl', ';=\t')
# open known findings (known_findings.json): narrow classes excluded from the Make obligations
KF_GLOB = param('kf_glob', False)     # C04-F9: '[' is backslash-escaped, Make keeps the backslash
KF_TILDE = param('kf_tilde', False)   # C04-F10: a leading '~' is written as \~, Make keeps the backslash
KF_QUOTE = param('kf_quote', False)   # C04-F11: "'" inside '$@' / '$<'
MK = Makefile('build.bfg')
NF = NinjaFile('build.bfg')
SRC = (('srcdir', '.'),)


def _printable(s):
    for ch in s:
        if not (' ' <= ch <= '~'):
            return False
    return True


def _comp_ok(s):
    """a path component in the scope of C04: printable ASCII, no separator, not . or .., not a
    one-letter-plus-colon drive prefix"""
    if len(s) == 0 or '/' in s or chr(92) in s or s == '.' or s == '..':
        return False
    if s[1:2] == ':' and SHAPE != 0:
        return False
    return _printable(s)


EXCL_ARCHIVE = param('excl_archive', True)


def _in_scope(s, excl):
    for ch in s:
        if ch in excl:
            return False
    if EXCL_ARCHIVE:
        # lib(member): GNU Make reads a word of this form as an archive member; no spelling avoids
        # it (established by the representability probe), so such names are outside the quantifier
        w = ['d/' + s, s, s + '/leaf.o'][SHAPE]
        k = w.find('(')
        if k > 0 and w[-1] == ')' and len(w) - 1 != k + 1:
            return False
        if ROOTI == 1 and k == 0 and w[-1] == ')' and len(w) > 2:
            return False           # ./(x) : the realised word is './(x)'
    return True


def _kf_make(c):
    """names covered by open known findings of the Make file-name positions"""
    if KF_GLOB and '[' in c:
        return True
    if KF_TILDE and c[0] == '~' and SHAPE != 0 and ROOTI == 0:
        return True
    return False


def _mkpath(c):
    p = Path.__new__(Path)
    p.suffix = ['d/' + c, c, c + '/leaf.o'][SHAPE]
    p.root = [Root.builddir, Root.srcdir][ROOTI]
    p.directory = False
    p.destdir = False
    return p


def _want(p):
    if p.root == Root.srcdir:
        return './' + p.suffix
    return p.suffix


def _text(writer_obj, thing, syntax):
    out = writer_obj.writer(StringIO())
    out.write(thing, syntax)
    return out.stream.getvalue()


def mt_target(c: str) -> bool:
    """Make rule target
    pre: len(c) == N and _comp_ok(c) and _in_scope(c, EXCL) and not c.endswith(' ') and not c.endswith('&')
    pre: not _kf_make(c)
    post: _
    """
    p = _mkpath(c)
    names = rmake.rule_words(_text(MK, p, MS.target), 'target', SRC)
    return R(names == [_want(p)])


def mv_target_var(c: str) -> bool:
    """the target part of a target-specific variable line (`<target>: CFLAGS := ...`, written by
    the real Makefile._write_variable for steps with their own options): Make reads it with the
    same rules as a rule target, so it must name the file the rule itself names
    pre: len(c) == N and _comp_ok(c) and _in_scope(c, EXCL) and not c.endswith(' ') and not c.endswith('&')
    pre: not _kf_make(c)
    post: _
    """
    p = _mkpath(c)
    out = MK.writer(StringIO())
    MK._write_variable(out, Variable('CFLAGS'), ['-DX=1'], target=p)
    text = out.stream.getvalue()
    tail = ': CFLAGS := -DX=1' + chr(10)
    if not text.endswith(tail):
        return R(False)
    names = rmake.rule_words(text[:-len(tail)], 'target', SRC)
    return R(names == [_want(p)] and names == rmake.rule_words(_text(MK, p, MS.target), 'target', SRC))


def md_prereq(c: str) -> bool:
    """Make prerequisite
    pre: len(c) == N and _comp_ok(c) and _in_scope(c, EXCL) and not _kf_make(c)
    post: _
    """
    p = _mkpath(c)
    names = rmake.rule_words('aa ' + _text(MK, p, MS.dependency) + ' zz', 'prereq', SRC)
    return R(names == ['aa', _want(p), 'zz'])


def mo_dir_sentinel(c: str) -> bool:
    """Make order-only directory sentinel <dir>/.dir (backends/make/writer.py directory_deps)
    pre: len(c) == N and _comp_ok(c) and _in_scope(c, EXCL) and SHAPE != 1 and not _kf_make(c)
    post: _
    """
    p = _mkpath(c)
    deps = mwriter.directory_deps([p])
    if len(deps) != 1:
        return R(False)
    names = rmake.rule_words(_text(MK, deps[0], MS.dependency), 'prereq', SRC)
    parent = _want(p).rsplit('/', 1)[0]
    return R(names == [parent + '/.dir'])


def mr_auto_var(c: str) -> bool:
    """Make recipe using the quoted automatic variable '$@' / '$<' (define RULE_CC ...): the name
    Make substitutes must reach the tool as one argument
    pre: len(c) == N and _comp_ok(c) and _in_scope(c, EXCL) and not (KF_QUOTE and chr(39) in c)
    post: _
    """
    p = _mkpath(c)
    out = MK.writer(StringIO())
    out.write_shell(['cc', '-o', qvar('@')])
    line = rmake.recipe(out.stream.getvalue(), (('@', _want(p)),))
    return R(line is not None and rsh.argv(line) == ['cc', '-o', _want(p)])


class _FEnv:
    base_dirs = {Root.srcdir: Path('/srcdir', Root.absolute), Root.builddir: None}


def _write_depfile(dirs, makeify):
    buf = StringIO()

    class _F:
        def __enter__(self):
            return buf

        def __exit__(self, *a):
            return False
    had = hasattr(bfind, 'open')
    old = getattr(bfind, 'open', None)
    bfind.open = lambda *a, **k: _F()
    try:
        bfind.write_depfile(_FEnv, Path('.bfg_find_deps'), Path('Makefile'), dirs, makeify=makeify)
    finally:
        if had:
            bfind.open = old
        else:
            del bfind.open
    return buf.getvalue()


def mf_find_deps(c: str) -> bool:
    """.bfg_find_deps as written by the real builtins/find.py write_depfile (makeify form): the
    walked directory as a prerequisite of the build file and as a target of its own
    pre: len(c) == N and _comp_ok(c) and _in_scope(c, EXCL) and not _kf_make(c)
    pre: not (KF_TILDE and c[0] == '~' and SHAPE != 0)
    post: _
    """
    p = _mkpath(c)
    p.directory = True
    s = p.suffix if p.root == Root.builddir else '/srcdir/' + p.suffix
    text = _write_depfile([Path('plain', Root.srcdir, directory=True), p], True)
    lines = text.split('\n')
    if len(lines) != 4 or lines[3] != '':
        return R(False)
    head = 'Makefile:'
    if not lines[0].startswith(head) or not lines[1] == '/srcdir/plain:':
        return R(False)
    a = rmake.rule_words(lines[0][len(head):], 'prereq')
    if not lines[2].endswith(':'):
        return R(False)
    if s.endswith(' ') or s.endswith('&'):
        b = [s]
    else:
        b = rmake.rule_words(lines[2][:-1], 'target')
    return R(a == ['/srcdir/plain', s] and b == [s])


NEXCL = param('nexcl', '|')


def nt_output(c: str) -> bool:
    """Ninja build output
    pre: len(c) == N and _comp_ok(c) and _in_scope(c, NEXCL)
    post: _
    """
    p = _mkpath(c)
    text = _text(NF, p, NS.output)
    r = rninja.paths(text + ': rule', SRC)
    return R(r is not None and r[0] == [_want(p) if p.root == Root.srcdir else p.suffix] and
             r[1] == len(text))


def ni_input(c: str) -> bool:
    """Ninja build input / implicit / order-only / default
    pre: len(c) == N and _comp_ok(c) and _in_scope(c, NEXCL)
    post: _
    """
    p = _mkpath(c)
    text = 'aa ' + _text(NF, p, NS.input) + ' zz'
    r = rninja.paths(text, SRC)
    return R(r is not None and r[0] == ['aa', _want(p), 'zz'] and r[1] == len(text))


def nb_build_line(c: str) -> bool:
    """a whole Ninja build statement written by the real NinjaFile._write_build
    pre: len(c) == N and _comp_ok(c) and _in_scope(c, NEXCL)
    post: _
    """
    from bfg9000.backends.ninja.syntax import Build
    p = _mkpath(c)
    out = NF.writer(StringIO())
    NF._write_build(out, Build([p], 'cc', [p], ['imp'], [p], {}))
    text = out.stream.getvalue()
    if not text.endswith('\n'):
        return R(False)
    b = rninja.build_line(text[:-1], SRC)
    w = _want(p)
    return R(b is not None and b['outputs'] == [w] and b['rule'] == 'cc' and b['inputs'] == [w] and
             b['implicit'] == ['imp'] and b['order_only'] == [w])


# ---- positions whose file exists when Make reads the name (sources, depfiles) -----------------
EXCL_SRC = param('excl_src', ';=')
FIRSTCH = param('first', '')            # partition: first character of the component
KF_INCLUDE = param('kf_include', False)   # C04-F15: ':' / '%' / leading '~' in an -include line


def ms_source_prereq(c: str) -> bool:
    """Make prerequisite naming an existing source file: wildcard characters are written
    backslash-escaped, which glob(3) resolves to the existing file of that name
    pre: len(c) == N and _comp_ok(c) and _in_scope(c, EXCL_SRC)
    pre: not (KF_TILDE and c[0] == '~' and SHAPE != 0 and ROOTI == 0)
    pre: FIRSTCH == '' or c[0] == FIRSTCH
    post: _
    """
    p = _mkpath(c)
    w = _want(p)
    names = rmake.rule_words('00 ' + _text(MK, p, MS.dependency) + ' 99', 'prereq', SRC, [w])
    return R(names == ['00', w, '99'])


_EMPTY = StringIO()
Makefile('build.bfg').write(_EMPTY)
_PREFIX_LEN = len(_EMPTY.getvalue())


def mi_include(c: str) -> bool:
    """`-include <depfile>` as written by the real Makefile.include + Makefile.write: Make reads
    exactly the depfile the compiler wrote
    pre: len(c) == N and _comp_ok(c) and _in_scope(c, EXCL_SRC)
    pre: not (KF_INCLUDE and (':' in c or '%' in c or (c[0] == '~' and SHAPE != 0 and ROOTI == 0)))
    post: _
    """
    p = _mkpath(c)
    mk = Makefile('build.bfg')
    mk.include(p, optional=True)
    out = StringIO()
    mk.write(out)
    text = out.getvalue()[_PREFIX_LEN:]
    head = '-include '
    if not (text.startswith(head) and text.endswith('\n')):
        return R(False)
    w = _want(p)
    names = rmake.include_words(text[len(head):-1], SRC, [w])
    return R(names == [w])


# ---- the directory sentinel rule:  %/.dir: ; mkdir -p '$(patsubst %/.dir,%,$@)' ; touch '$@' ------
class _MkdirTool:
    def __call__(self, path):
        return ['mkdir', '-p', path]


class _DEnv:
    def tool(self, name):
        return _MkdirTool()


def mx_dir_rule(c: str) -> bool:
    """the pattern rule that creates output directories: run for the sentinel of directory d/<c>
    (resp. <c>), its recipe creates exactly that directory and touches exactly that sentinel
    pre: len(c) == N and _comp_ok(c) and _in_scope(c, EXCL) and SHAPE != 2 and ROOTI == 0
    pre: not (KF_QUOTE and chr(39) in c)
    pre: not (param('kf_wsrun', False) and _ws_run(param('cprefix', '') + c))
    post: _
    """
    # cprefix: fixed beginning of the component (the symbolic part follows it)
    c = param('cprefix', '') + c
    mk = Makefile('build.bfg')
    mwriter.directory_rule(None, mk, _DEnv())
    rule = mk._rules[-1]
    d = 'd/' + c if SHAPE == 0 else c
    sentinel = d + '/.dir'
    argvs = []
    for cmd in rule.recipe:
        w = mk.writer(StringIO())
        w.write_shell(cmd)
        line = rmake.recipe(w.stream.getvalue(), (('@', sentinel),))
        if line is None:
            return R(False)
        argvs.append(rsh.argv(line))
    return R(argvs == [['mkdir', '-p', d], ['touch', sentinel]])


def _ws_run(c):
    """known finding C04-F18: patsubst works word by word and re-joins with single blanks"""
    return '  ' in c or c.startswith('.dir ')


def _paren_balanced(c):
    d = 0
    for ch in c:
        if ch == '(':
            d += 1
        elif ch == ')':
            d -= 1
            if d < 0:
                return False
    return d == 0


def mc_call_arg(c: str) -> bool:
    """object files handed to a link recipe through $(call RULE,<files>,<output>): Make splits the
    arguments at top-level commas and at the matching parenthesis, expands them, and the define
    body passes $(1) to sh -- each file must arrive as one argument (names with unbalanced
    parentheses are outside, as the property says)
    pre: len(c) == N and _comp_ok(c) and _in_scope(c, EXCL_SRC) and _paren_balanced(c)
    pre: not (param('kf_comma', False) and ',' in c)
    pre: not (KF_TILDE and c[0] == '~' and SHAPE != 0 and ROOTI == 0)
    post: _
    """
    p = _mkpath(c)
    out = MK.writer(StringIO())
    out.write_shell(Call('RULE_LD', [_mkpath('main.o', Root.builddir) if False else p, 'second.o'],
                         'out put'))
    text = out.stream.getvalue()
    body = ('rec', 'ld $(1) -o $(2)')
    line = rmake.recipe(text, (('RULE_LD', body),) + SRC + ((',', ','),))
    if line is None:
        return R(False)
    return R(rsh.argv(line) == ['ld', _want(p), 'second.o', '-o', 'out put'])

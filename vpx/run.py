"""Runner: python -m vpx.run <ID> --tier quick|thorough [--replay FILE]

obligations -> one CrossHair worker process each (16 in parallel) -> verdicts -> replay of every
counterexample (concretely, then against the real tool) -> evidence/<ID>.json.

exit 0  nothing violated on everything explored (KNOWN-FINDING lines allowed)
exit 1  replayed violation; prints `VIOLATION property=<id> replay=<path>`
exit 3  harness error: model/tool disagreement, non-reproducing counterexample, vacuous harness,
        insensitive harness, engine crash
"""
import argparse
import importlib
import json
import os
import random
import subprocess
import sys
import time
from concurrent.futures import ThreadPoolExecutor

ROOT = os.path.dirname(os.path.dirname(os.path.abspath(__file__)))
PY = os.path.join(ROOT, '.venv', 'bin', 'python')
if not os.path.exists(PY):          # a snapshot of /verif (vp run) has no venv of its own
    PY = '/verif/.venv/bin/python'
EVID = os.environ.get('VPX_EVIDENCE_DIR') or os.path.join(ROOT, 'evidence')
KF_FILE = os.path.join(ROOT, 'known_findings.json')


ENGINE_IDENTITIES = ['concat_empty_split', 'concat_slices', 'sub_anchor', 'dict_update_keeps_order']


class Ob:
    """One proof obligation: harness function + bound parameters + expectation."""

    def __init__(self, fn, params=None, timeout=120, role='main', module=None, desc='',
                 kf=None):
        self.fn = fn
        self.params = dict(params or {})
        self.timeout = timeout
        self.role = role              # main | reach | mutant
        self.module = module
        self.desc = desc
        self.kf = kf
        self.result = None

    @property
    def name(self):
        p = ','.join('%s=%s' % (k, v) for k, v in sorted(self.params.items())
                     if k not in ('twin',))
        return '%s[%s]%s' % (self.fn, p, '' if self.role == 'main' else ':' + self.role)

    def twin(self, timeout=None):
        p = dict(self.params)
        p['twin'] = 'reach'
        return Ob(self.fn, p, timeout or min(self.timeout, 120), 'reach', self.module, self.desc)

    def mutant(self, name, timeout=None):
        p = dict(self.params)
        p['mutant'] = name
        return Ob(self.fn, p, timeout or self.timeout, 'mutant', self.module, self.desc)


def run_worker(mode, module, fn, arg, params, hard_timeout):
    env = dict(os.environ)
    env['VPX_PARAMS'] = json.dumps(params)
    env['PYTHONPATH'] = (os.environ['VPX_REPO'] + os.pathsep if os.environ.get('VPX_REPO') else '') + ROOT
    env['PYTHONDONTWRITEBYTECODE'] = '1'
    env.setdefault('PYTHONHASHSEED', '0')
    t0 = time.time()
    try:
        r = subprocess.run([PY, '-m', 'vpx.worker', mode, module, fn, str(arg)], env=env,
                           capture_output=True, timeout=hard_timeout, cwd=ROOT)
    except subprocess.TimeoutExpired:
        return {'verdict': 'unknown', 'message': 'hard timeout after %ds' % hard_timeout,
                'wall_s': round(time.time() - t0, 1), 'paths': 0, 'confirmed_paths': 0}
    for line in r.stdout.decode(errors='replace').splitlines():
        if line.startswith('VPXRESULT '):
            return json.loads(line[len('VPXRESULT '):])
    return {'verdict': 'error', 'message': 'worker produced no result (rc=%d): %s' % (
        r.returncode, r.stderr.decode(errors='replace')[-1500:]), 'paths': 0,
        'confirmed_paths': 0, 'wall_s': round(time.time() - t0, 1)}


def check_ob(ob):
    ob.result = run_worker('check', ob.module, ob.fn, ob.timeout, ob.params,
                           ob.timeout * 1.5 + 60)
    return ob


def replay_concrete(ob, cex, params=None):
    p = dict(params if params is not None else ob.params)
    p.pop('twin', None)
    return run_worker('replay', ob.module, ob.fn, json.dumps(cex), p, 300)


def load_kf():
    if not os.path.exists(KF_FILE):
        return []
    with open(KF_FILE) as f:
        return json.load(f).get('findings', [])


def main(argv=None):
    ap = argparse.ArgumentParser()
    ap.add_argument('id')
    ap.add_argument('--tier', default=os.environ.get('VERIF_TIER', 'quick'))
    ap.add_argument('--replay')
    ap.add_argument('--only', help='substring filter on obligation names (debugging)')
    ap.add_argument('--jobs', type=int, default=int(os.environ.get('VPX_JOBS', '16')))
    args = ap.parse_args(argv)
    pid = args.id.upper()
    tier = args.tier if args.tier in ('quick', 'thorough') else 'quick'
    seed = int(os.environ.get('VERIF_SEED', '0') or 0)
    prop = importlib.import_module('vpx.props.' + pid.lower())

    if args.replay:
        return do_replay(prop, args.replay)

    t_start = time.time()
    harness_errors = []
    violations = []
    notes = []
    samples = []
    validated = 0

    # known findings --------------------------------------------------------------------
    kfs = [k for k in load_kf() if k.get('property') == pid and k.get('status') == 'open']
    kf_params = {}
    for k in kfs:
        if k.get('param'):
            kf_params[k['param']] = True

    # 1. conformance of the reference models against the real tools ----------------------
    conf = []
    if hasattr(prop, 'conformance'):
        for name, agree, skipped, bad in prop.conformance(tier):
            conf.append({'corpus': name, 'agree': agree, 'model_declines': skipped,
                         'disagree': len(bad)})
            validated += agree
            if bad:
                harness_errors.append('model/tool disagreement in %s: %r' % (name, bad[:3]))

    # 1b. engine self-test: symbolic regex matcher vs CPython on the regexes of the code under test
    selftest = None
    if hasattr(prop, 'regex_selftest'):
        env = dict(os.environ, PYTHONDONTWRITEBYTECODE='1', VPX_PARAMS='{}',
                   PYTHONPATH=(os.environ['VPX_REPO'] + os.pathsep if os.environ.get('VPX_REPO')
                               else '') + ROOT)
        r = subprocess.run([PY, '-m', 'vpx.selftest', 'vpx.props.' + pid.lower()], env=env,
                           capture_output=True, cwd=ROOT, timeout=1200)
        for line in r.stdout.decode(errors='replace').splitlines():
            if line.startswith('VPXRESULT '):
                selftest = json.loads(line[len('VPXRESULT '):])
        if selftest is None:
            harness_errors.append('engine self-test crashed: ' +
                                  r.stderr.decode(errors='replace')[-600:])
        else:
            validated += selftest['n'] - selftest['ndiffs']
            if selftest['ndiffs']:
                harness_errors.append('engine self-test: symbolic regex matcher differs from '
                                      'CPython: %r' % selftest['diffs'][:3])

    # 2. direct z3 queries (E2) ----------------------------------------------------------
    e2 = []
    if hasattr(prop, 'e2'):
        try:
            queries = list(prop.e2(tier))
        except ValueError as e:
            # the object lifted from the live code is no longer a single character class: the
            # all-Unicode inclusion cannot be posed; the E1 obligations still cover the behaviour
            queries = [{'name': 'E2 extraction', 'status': 'inconclusive', 'detail': str(e)}]
            notes.append('E2 query not posed: %s' % e)
        for q in queries:
            e2.append(q)
            if q.get('status') == 'violated':
                violations.append({'kind': 'e2', 'what': q})
            elif q.get('status') == 'error':
                harness_errors.append('E2 query %s: %s' % (q['name'], q.get('detail')))

    # 3. obligations ------------------------------------------------------------------
    obs = prop.obligations(tier, kf_params)
    for ob in obs:
        ob.module = ob.module or prop.HARNESS
    if args.only:
        obs = [o for o in obs if args.only in o.name]
    else:
        for fn in ENGINE_IDENTITIES:
            obs.append(Ob(fn, {}, 120, 'engine', 'vpx.harness.engine',
                          'engine regression identity (must be Confirmed)'))
    rnd = random.Random(seed)
    order = sorted(obs, key=lambda o: -o.timeout)
    if seed:
        rnd.shuffle(order)
    with ThreadPoolExecutor(args.jobs) as ex:
        list(ex.map(check_ob, order))

    n_main = n_disch = n_inconcl = 0
    states = transitions = 0
    solver_cpu = 0.0
    mutants_killed = []
    for ob in obs:
        r = ob.result
        v = r.get('verdict')
        states += int(r.get('paths', 0))
        transitions += sum(int(x) for x in (r.get('tree') or {}).values())
        solver_cpu += float(r.get('cpu_s', 0))
        rec = {'obligation': ob.name, 'role': ob.role, 'verdict': v,
               'paths': r.get('paths'), 'confirmed_paths': r.get('confirmed_paths'),
               'cpu_s': r.get('cpu_s'), 'desc': ob.desc}
        if v != 'confirmed':
            rec['message'] = (r.get('message') or '')[:300]
        if ob.role == 'main':
            n_main += 1
            if v == 'confirmed':
                n_disch += 1
            elif v == 'unknown':
                n_inconcl += 1
            elif v == 'refuted':
                cex = r.get('cex')
                if cex is None:
                    harness_errors.append('%s: counterexample not parseable: %s' % (
                        ob.name, r.get('message')))
                else:
                    rp = replay_concrete(ob, cex)
                    rec['cex'] = cex
                    rec['concrete_replay'] = rp
                    if rp.get('ok', True):
                        harness_errors.append('%s: counterexample %r does not reproduce '
                                              'concretely (engine/model error)' % (ob.name, cex))
                    else:
                        real = None
                        if hasattr(prop, 'real_replay'):
                            try:
                                real = prop.real_replay(ob, cex)
                            except UnicodeError as e:
                                notes.append('real-tool replay of %r impossible: %s' % (cex, e))
                            except Exception as e:
                                # the concrete replay through the harness body (real code) stands
                                notes.append('real-tool replay of %r crashed: %r' % (cex, e))
                            rec['real_replay'] = real
                        if real is not None and not real.get('reproduced'):
                            harness_errors.append('%s: counterexample %r fails in the model but '
                                                  'not against the real tool: %s' % (
                                                      ob.name, cex, real.get('detail')))
                        else:
                            validated += 1
                            violations.append({'kind': 'cex', 'ob': ob, 'cex': cex,
                                               'concrete': rp, 'real': real})
            else:
                harness_errors.append('%s: %s: %s' % (ob.name, v, (r.get('message') or '')[:500]))
        elif ob.role == 'engine':
            if v != 'confirmed':
                harness_errors.append('engine regression identity %s came back %s: %s' % (
                    ob.fn, v, (r.get('message') or '')[:200]))
        elif ob.role == 'reach':
            if v == 'refuted':
                pass
            elif v == 'unknown':
                notes.append('reachability twin inconclusive: ' + ob.name)
            else:
                harness_errors.append('vacuous harness: reachability twin %s came back %s' % (
                    ob.name, v))
        elif ob.role == 'mutant':
            if v == 'refuted':
                cex = r.get('cex')
                ok = None
                if cex is not None:
                    rp = replay_concrete(ob, cex)
                    ok = rp.get('ok')
                    validated += 1
                rec['cex'] = cex
                if ok is False:
                    mutants_killed.append({'mutant': ob.params.get('mutant'), 'by': ob.fn,
                                           'cex': cex})
                else:
                    harness_errors.append('mutant counterexample of %s does not replay' % ob.name)
            elif v == 'confirmed':
                harness_errors.append('insensitive harness: mutant %s survives %s' % (
                    ob.params.get('mutant'), ob.fn))
            else:
                notes.append('sensitivity twin inconclusive: %s (%s)' % (ob.name, v))
        samples.append(rec)

    # 4. small-bound concrete cross-check (consistency of the engine, not the deciding step) ----
    if hasattr(prop, 'concrete_crosscheck'):
        n, fails = prop.concrete_crosscheck(tier, kf_params)
        validated += n
        for fn, a in fails:
            n = len(a[0]) if a and hasattr(a[0], '__len__') else None
            same = [o for o in obs if o.role == 'main' and o.fn == fn and
                    (o.params.get('N') == n or 'N' not in o.params)]
            if same and all(o.result.get('verdict') == 'confirmed' for o in same):
                harness_errors.append('concrete cross-check: %s%r fails although the solver '
                                      'confirmed the bound' % (fn, a))

    # 5. known findings: witnesses must still reproduce ---------------------------------------
    kf_lines = []
    for k in kfs:
        ob = Ob(k['harness'], dict(k.get('witness_params') or {}), module=k.get('module') or prop.HARNESS)
        p = dict(ob.params)
        if k.get('param'):
            p[k['param']] = False
        rp = replay_concrete(ob, {'args': k['witness'], 'kwargs': {}}, p)
        if rp.get('ok') is False:
            kf_lines.append('KNOWN-FINDING: property=%s %s' % (pid, k['what']))
            validated += 1
        else:
            notes.append('known finding %s no longer reproduces' % k['id'])

    # violations vs. known findings --------------------------------------------------------
    real_violations = []
    for v in violations:
        if v['kind'] == 'cex' and hasattr(prop, 'classify'):
            try:
                kid = prop.classify(v['ob'], v['cex'])
            except Exception as e:      # an unclassifiable counterexample is a violation
                notes.append('classify(%r) crashed: %r' % (v['cex'], e))
                kid = None
            if kid and any(k['id'] == kid for k in kfs):
                line = 'KNOWN-FINDING: property=%s %s' % (
                    pid, [k['what'] for k in kfs if k['id'] == kid][0])
                if line not in kf_lines:
                    kf_lines.append(line)
                continue
        real_violations.append(v)

    os.makedirs(os.path.join(EVID, 'replays'), exist_ok=True)
    out_lines = []
    for i, v in enumerate(real_violations):
        path = os.path.join(EVID, 'replays', '%s-%d.json' % (pid, i))
        if v['kind'] == 'cex':
            ob = v['ob']
            payload = {'property': pid, 'module': ob.module, 'fn': ob.fn, 'params': ob.params,
                       'cex': v['cex'], 'concrete': v['concrete'], 'real': v['real'],
                       'how': 'bin/check %s --replay %s' % (pid, path)}
        else:
            payload = {'property': pid, 'e2': v['what']}
        with open(path, 'w') as f:
            json.dump(payload, f, indent=1, default=str)
        out_lines.append('VIOLATION property=%s replay=%s' % (pid, path))

    wall = time.time() - t_start
    cov = {
        'states': max(states, 1), 'transitions': max(transitions, 1),
        'traces_validated_against_impl': validated,
        'obligations': n_main, 'discharged': n_disch, 'inconclusive': n_inconcl,
        'samples': samples[:400] or [{'note': 'no obligations'}],
        'functions_encoded': getattr(prop, 'FUNCTIONS', []),
        'bounds': prop.bounds(tier) if hasattr(prop, 'bounds') else {},
        'outside_bounds': getattr(prop, 'OUTSIDE', []),
        'stubs': getattr(prop, 'STUBS', []),
        'conformance': conf, 'z3_queries': e2, 'engine_selftest': selftest,
        'solver_time_s': round(solver_cpu, 1),
        'sensitivity_twins_refuted': mutants_killed,
        'known_findings_reported': kf_lines,
        'notes': notes, 'harness_errors': harness_errors,
        'exhaustive': bool(getattr(prop, 'EXHAUSTIVE', False)) and n_inconcl == 0,
        'engine': 'CrossHair 0.0.110 (z3 %s) on the live /repo sources' % _z3v(),
    }
    ev = {'property_id': pid, 'tier': tier, 'seed': seed, 'level': 'model_checking',
          'coverage': cov, 'assumptions': getattr(prop, 'ASSUMPTIONS', []),
          'wall_s': round(wall, 1), 'violations': len(real_violations)}
    with open(os.path.join(EVID, pid + '.json'), 'w') as f:
        json.dump(ev, f, indent=1, default=str)

    for l in kf_lines:
        print(l)
    print('%s %s: %d/%d obligations discharged, %d inconclusive, %d twins, %d violations, '
          '%d harness errors, %.0fs' % (pid, tier, n_disch, n_main, n_inconcl,
                                        len(obs) - n_main, len(real_violations),
                                        len(harness_errors), wall))
    for n in notes:
        print('note:', n)
    for h in harness_errors:
        print('HARNESS-ERROR:', h, file=sys.stderr)
    if real_violations:
        # a violation that was replayed concretely (and against the real tool) stands on its own
        for l in out_lines:
            print(l)
        return 1
    if harness_errors:
        return 3
    return 0


def _z3v():
    try:
        import z3
        return z3.get_version_string()
    except Exception:
        return '?'


def do_replay(prop, path):
    with open(path) as f:
        payload = json.load(f)
    if 'cex' not in payload:
        print(json.dumps(payload, indent=1))
        return 1
    ob = Ob(payload['fn'], payload['params'], module=payload['module'])
    rp = replay_concrete(ob, payload['cex'])
    print('concrete replay of %s%r: %s' % (ob.fn, payload['cex'], rp))
    real = None
    if hasattr(prop, 'real_replay'):
        real = prop.real_replay(ob, payload['cex'])
        print('real-tool replay:', real)
    failed = rp.get('ok') is False and (real is None or real.get('reproduced'))
    if failed:
        print('VIOLATION property=%s replay=%s' % (payload['property'], path))
        return 1
    return 0


if __name__ == '__main__':
    try:
        rc = main()
    except SystemExit:
        raise
    except BaseException:
        import traceback
        traceback.print_exc()
        print('HARNESS-ERROR: the runner itself crashed (exit 3: nothing is claimed)')
        rc = 3
    sys.exit(rc)

"""C06 -- Make, Ninja and compile_commands.json agree (differential, one edge at a time)."""
from vpx.run import Ob

ID = 'C06'
LEVEL_TEXT = ('bounded symbolic execution (CrossHair/z3) of the real object_file / executable / '
              'build_step builtins and their real make_*, ninja_*, compdb_* handlers on a real '
              'BuildContext (gcc detected once at import) with a symbolic per-target option / link '
              'option / command argument over all of Unicode: the command of that edge is decoded from '
              'the Makefile objects (variables, target-specific variables, define/call) by rmake+rsh, '
              'from the NinjaFile objects (file/build/rule scoped variables, $in/$out) by rninja+rsh '
              'and from the CompDB entry, and the three argument vectors must be equal (modulo '
              'ninja-only colour-diagnostics flags)')
LEVEL_NOTE = ('per-edge differential check: whole-project target sets, install/test rules and '
              'MSBuild are outside; file names are concrete (the builtins key dictionaries by path); '
              'rninja trusted; rmake/rsh validated in C01; the JSON text of compile_commands.json is '
              'the stdlib encoder (the entry is compared before serialisation)')
HARNESS = 'vpx.harness.c06'
FUNCTIONS = ['bfg9000.builtins.compile.object_file/CompileSource/_get_flags/make_compile/'
             'ninja_compile/compdb_compile', 'bfg9000.builtins.link.executable/DynamicLink/'
             'make_link/ninja_link/compdb_link', 'bfg9000.builtins.copy_file.copy_file/CopyFile/make_copy_file/ninja_copy_file/compdb_copy_file', 'bfg9000.builtins.command.build_step/BuildStep/'
             'make_command/ninja_command/compdb_command', 'bfg9000.backends.make.writer.flags_vars/'
             'multitarget_rule', 'Makefile.define/_write_variable', 'NinjaFile.rule/build/'
             '_write_variable/write', 'bfg9000.backends.ninja.writer.write', 'bfg9000.backends.compdb.writer.CompDB.append/_stringify',
             'bfg9000.tools.cc.compiler.CcCompiler._call/flags', 'tools.cc.linker.CcLinker._call/flags',
             'posix.quote_info', 'safe_str.jbos']
OUTSIDE = ['symbolic file names', 'more than one symbolic string per edge', 'libraries / packages '
           'on the edge', 'MSBuild', 'install, test and regenerate rules', 'strings longer than the bound']
STUBS = ['Environment built once at import with the real gcc detection (concrete, untraced)']
ASSUMPTIONS = ['rninja trusted; rmake/rsh validated against the real tools in C01', 'GNU Make variable lookup order for prerequisites (own > pattern-specific > inherited from the dependant > global) validated against the real make on all 8 combinations per run']


def bounds(tier):
    q = tier == 'quick'
    return {'string_length': '0..%d' % (1 if q else 2), 'alphabet': 'all Unicode except NUL, CR, LF',
            'edges': ['compile (object_file with per-target and global options)',
                      'link (executable with link option)', 'build_step (list-form command)', 'link with a project static library and a global link option', 'whole build.ninja (file-scope variable order) for a compile edge with global include dir/option', 'pairs of copy_file steps (copy/symlink/hardlink; source-tree or generated input) sharing one rule/define per mode', 'compile edge built as a prerequisite of an edge with its own options (Make hands target-specific variables down to prerequisites)']}


def obligations(tier, kf):
    q = tier == 'quick'
    obs = []
    for fn in ('c_compile', 'l_link', 'b_build_step', 'g_link_lib_global', 'p_prereq'):
        for n in range(0, (1 if q else 2) + 1):
            obs.append(Ob(fn, {'N': n}, 600 if n < 2 else 3000, desc='%s |s|==%d' % (fn, n)))
        obs.append(Ob(fn, {'N': 1}, 200).twin())
    w = Ob('w_whole_file', {}, 900, desc='complete build.ninja from the real writer, file-scope evaluation order')
    obs += [w, w.twin(), w.mutant('ninja_srcdir_after_flags')]
    y = Ob('y_copy', {}, 900, desc='two copy_file steps, 3 modes x 2 source kinds each (36 shapes)')
    obs += [y, y.twin(), y.mutant('ninja_copy_input_per_step')]
    obs.append(Ob('p_prereq', {'N': 1}, 600).mutant('make_flags_vars_global'))
    obs.append(Ob('c_compile', {'N': 1}, 600).mutant('compdb_drops_target_options'))
    obs.append(Ob('c_compile', {'N': 1}, 600).mutant('ninja_no_dollar'))
    obs.append(Ob('l_link', {'N': 1}, 600).mutant('make_no_dollar'))
    obs.append(Ob('b_build_step', {'N': 1}, 600).mutant('posix_quote_safe'))
    obs.append(Ob('g_link_lib_global', {'N': 1}, 600).mutant('ldlibs_uses_global_ldflags'))
    return obs


def conformance(tier):
    from vpx import conformance as cf
    a, d, bad = cf.check_make_inheritance()
    return [('GNU Make lookup order of target-specific / pattern-specific / inherited / global '
             'variables vs /usr/bin/make', a, d, bad)]

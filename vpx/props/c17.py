"""C17 -- generated pkg-config files: version-specifier algebra (Requires / Conflicts lists)."""
from vpx.run import Ob

ID = 'C17'
LEVEL_TEXT = ('bounded symbolic execution (CrossHair/z3) of the real simplify_specifiers, Requirement '
              'and RequirementSet code over every list of up to 3 (quick) / 4 (thorough) specifiers '
              'with the six operators and versions taken from a dense total order, against the '
              'membership semantics of the original set; exactness, rejection iff unsatisfiable, and '
              'public/private merging are decided for every probe version; counterexamples are '
              'replayed on real verspec objects')
LEVEL_NOTE = ('versions are abstracted to points of a dense total order (3 version points, 7 probe '
              'points: a complete set of representatives for the comparison operators); stub '
              'Specifier/SpecifierSet classes provide exactly the interface the code uses; the final '
              'textual re-parse inside simplify_specifiers is replaced by a table lookup; the '
              'field-quoting kernel uses rpc, a reference model of pkgconf 1.8 field reading and '
              'printing validated against the real pkg-config per run, then sh parsing (rsh) as the '
              'consumer; one include directory, one library directory and the install prefix are driven through the whole generated file (both variants); Requires lines are not driven through it')
HARNESS = 'vpx.harness.c17'
FUNCTIONS = ['bfg9000.versioning.simplify_specifiers', 'bfg9000.builtins.pkg_config.Requirement.'
             '__iand__', 'Requirement.split', 'RequirementSet.add', 'RequirementSet.merge_from',
             'RequirementSet.split', 'SimpleRequirement.__init__']
OUTSIDE = ['more specifiers per name than the bound', 'operators ~= and === (rejected as invalid)',
           'the textual form of versions (PEP 440 parsing is verspec\'s)', 'compiling a consumer', 'system directories and repeated -I/-L fragments (pkgconf filters and merges them)', 'a quote or trailing blank in the source/build directory itself (same mechanism as known finding C17-F21)', 'characters no .pc spelling can deliver ($ and parentheses: established at run time)',
           'pkgconf does not evaluate Conflicts in this sandbox\'s version, so Conflicts semantics '
           'are only checked as "conjunction of the emitted entries == original set"']
STUBS = ['verspec Specifier/SpecifierSet -> Spec/SpecSet over integer points (vpx/harness/c17.py)']
ASSUMPTIONS = ['version comparison is a total order; the comparison operators of verspec agree with '
               'it (replay uses real verspec objects)']
EXHAUSTIVE = True
FNS = ['s_simplify', 'm_merge', 'c_conflicts']
FUNCTIONS_PC = ['bfg9000.builtins.pkg_config.finalize_pkg_config (auto_fill)', 'bfg9000.builtins.pkg_config.PkgConfigWriter._write_field/_write_value', 'bfg9000.shell.syntax.Writer.write/write_each', 'posix.quote_info']


def bounds(tier):
    return {'specifiers_per_set': 'simplify: 0..3 quick / 0..4 thorough; merge and conflicts: 0..2 '
                                  'quick / 0..3 thorough (exact count per obligation; counts >= 3 '
                                  'partitioned by the first specifier)',
            'version_points': 3, 'probe_points': 7, 'pc_field_option_length': '0..1 quick / 0..3 thorough, all Unicode minus the run-time established unrepresentable set %r' % pc_probe(), 'operators': ['==', '!=', '>', '>=', '<', '<=']}


def obligations(tier, kf):
    quick = tier == 'quick'
    kmax = {'s_simplify': 3 if quick else 4, 'm_merge': 2 if quick else 3,
            'c_conflicts': 2 if quick else 3}
    obs = []
    for fn in FNS:
        for k in range(0 if fn != 'm_merge' else 1, kmax[fn] + 1):
            parts = [(-1, -1)] if k < 3 else [(f, g) for f in range(6) for g in range(3)]
            for f, g in parts:
                ob = Ob(fn, {'K': k, 'F': f, 'G': g}, 600 if k < 4 else 3000,
                        desc='%s, %d specifiers%s' % (fn, k, '' if f < 0 else
                                                      ', first specifier %s@%d' % (OPS[f], g)))
                obs.append(ob)
        obs.append(Ob(fn, {'K': 2, 'F': -1, 'G': -1}, 120).twin())
    # '!=V,>=V,<=V' needs three specifiers; the partition with '!=' first contains it
    obs.append(Ob('s_simplify', {'K': 3, 'F': 1, 'G': -1}, 600).mutant('simplify_ignores_ne'))
    obs.append(Ob('m_merge', {'K': 3, 'F': 1, 'G': -1}, 600).mutant('simplify_ignores_ne'))
    obs.append(Ob('s_simplify', {'K': 2, 'F': -1, 'G': -1}, 300).mutant('simplify_max_for_lt'))
    af = Ob('a_autofill', {'K': 1}, 600, desc='auto_fill shapes (2 x 2 x 3 x 3 x on/off)')
    obs += [af, af.twin(), af.mutant('autofill_overrides_empty')]
    excl = pc_probe()
    for n in range(0, (1 if quick else 3) + 1):
        obs.append(Ob('q_define', dict(kf, N=n, K=1, pc_excl=excl), {0: 60, 1: 200, 2: 1200, 3: 5000}[n],
                      desc='Cflags field quoting, |s|==%d' % n))
    for which in ('uninstalled', 'installed'):
        for n in range(1, (1 if quick else 2) + 1):
            for part in ((-1,) if n == 1 else range(4)):
                obs.append(Ob('i_paths', dict(kf, N=n, K=1, pc_excl=excl, which=which, part=part),
                              {1: 900, 2: 6000}[n],
                              desc='-I/-L directories through the whole %s file, |s|==%d%s' % (
                                  which, n, '' if part < 0 else ', first character class %d' % part)))
    ip = Ob('i_paths', dict(kf, N=1, K=1, pc_excl=excl, which='uninstalled'), 900)
    obs += [ip.twin(), ip.mutant('sh_jbos_escaped_last_only')]
    obs.append(Ob('q_define', dict(kf, N=1, K=1, pc_excl=excl), 120).twin())
    obs.append(Ob('q_define', dict(kf, N=1, K=1, pc_excl=excl), 300).mutant('pc_no_hash_escape'))
    obs.append(Ob('q_define', dict(kf, N=1, K=1, pc_excl=excl), 300).mutant('posix_quote_safe'))
    return obs


import functools


@functools.lru_cache(None)
def pc_probe():
    """characters a .pc field cannot deliver to the consumer whatever the spelling: for each
    printable ASCII character c try -DX=a<c>b written raw, single-quoted, backslash-escaped and
    quote-exited-backslash-escaped in a hand-written .pc file, read it with the real pkg-config
    and parse the output with the real /bin/sh"""
    import subprocess
    from concurrent.futures import ThreadPoolExecutor
    from vpx import conformance as cf

    def works(c):
        want = '-DX=a' + c + 'b'
        for sp in (want, "'" + want + "'", '-DX=a\\' + c + 'b', "'-DX=a'\\" + c + "'b'"):
            out = cf.real_pkgconfig_cflags('-DQ ' + sp + ' -DZ')
            if isinstance(out, tuple):
                continue
            with cf.Scratch() as sc:
                r = cf.real_sh('prog ' + out, sc.dir, 0, 'prog')
            if not isinstance(r[0], str) and r[1] == ['prog', '-DQ', want, '-DZ']:
                return True
        return False
    chars = [chr(i) for i in range(32, 127) if chr(i) != "'"]
    with ThreadPoolExecutor(16) as ex:
        res = list(ex.map(works, chars))
    return ''.join(c for c, ok in zip(chars, res) if not ok)


def conformance(tier):
    from vpx import conformance as cf
    k = 2 if tier == 'quick' else 3
    a, d, bad = cf.check_rpc(list(cf.strings(list("a'\\ #$\"{}()-=%~;"), k, 1)))
    out = [('rpc (pkgconf field reading + printing) vs /usr/bin/pkg-config', a, d, bad)]
    a, d, bad = cf.check_rpc_file(list(cf.strings(list("a'\\ #$\"{}/.-=~:"), k, 1)))
    out.append(('rpc whole-file reading (variables, ${pcfiledir}, -I/-L fragments) vs '
                '/usr/bin/pkg-config', a, d, bad))
    return out


def classify(ob, cex):
    if ob.fn == 'q_define' and '\\#' in cex['args'][0]:
        return 'C17-F17'
    if ob.fn == 'i_paths' and ob.params.get('which') == 'installed':
        s = cex['args'][0]
        if "'" in s or '"' in s or s[-1:] in (' ', '\t', '\x0b', '\x0c'):
            return 'C17-F21'
    return None


OPS = ['==', '!=', '>', '>=', '<', '<=']


def real_paths(s, which):
    """the generated file through the real pkg-config and the real /bin/sh"""
    import importlib
    from vpx import conformance as cf
    h = importlib.import_module(HARNESS)
    text, want = h.i_text(s, which)
    detail = {'pc_file': text}
    bad = False
    for flag, k in (('--cflags', 0), ('--libs', 1)):
        d, out = cf.real_pkgconfig_file(text, flag)
        if d is None:
            return None
        if isinstance(out, tuple):
            detail[flag] = out
            bad = True
            continue
        with cf.Scratch() as sc:
            r = cf.real_sh('prog ' + out, sc.dir, 0, 'prog')
        got = None if isinstance(r[0], str) else r[1]
        detail[flag] = {'printed': out, 'consumer_argv': got, 'declared': want(d)[k]}
        if got != want(d)[k]:
            bad = True
    return {'reproduced': bad, 'detail': detail}


def real_replay(ob, cex):
    """replay on real verspec SpecifierSet / Version objects with the real simplify_specifiers"""
    from bfg9000.versioning import simplify_specifiers, SpecifierSet, Version
    args = cex['args']
    if ob.fn == 'i_paths':
        return real_paths(args[0], ob.params.get('which', 'uninstalled'))
    if not (args and isinstance(args[0], (list, tuple))):
        return None      # the other obligations already run the real code in the harness body
    if ob.fn == 'm_merge':
        raw = list(args[0]) + list(args[1])
        v = args[2]
    else:
        raw = list(args[0])
        v = args[1]

    def ver(x):      # point -> version string: even points n -> n/2+1 .0, odd -> .5 between
        return '%d.%d' % (x // 2 + 1, 5 if x % 2 else 0)
    text = ','.join(OPS[o] + ver(2 * x) for o, x in raw)
    orig = SpecifierSet(text)
    probes = [Version(ver(p)) for p in range(-1, 6)]
    try:
        res = simplify_specifiers(SpecifierSet(text))
    except ValueError as e:
        sat = [str(p) for p in probes if p in orig]
        return {'reproduced': bool(sat), 'detail': 'rejected %r (%s) although satisfied by %s' % (
            text, e, sat) if sat else 'rejected and unsatisfiable'}
    diff = [str(p) for p in probes if (p in res) != (p in orig)]
    unsat = not any(p in res for p in probes)
    return {'reproduced': bool(diff) or unsat,
            'detail': {'specifiers': text, 'simplified': str(res), 'differs_at': diff,
                       'unsatisfiable_but_accepted': unsat}}

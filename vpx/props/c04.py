"""C04 -- file names with special characters denote the same file in every position."""
import functools
from concurrent.futures import ThreadPoolExecutor

from vpx.run import Ob
from vpx import conformance as cf
from vpx.models import rmake

ID = 'C04'
LEVEL_TEXT = ('bounded symbolic execution (CrossHair/z3) of the real Make and Ninja writers '
              '(target, prerequisite, order-only sentinel, quoted automatic variable, '
              '.bfg_find_deps line, prerequisite naming an existing source, -include line; ninja '
              'output/input/build statement) on paths with one symbolic '
              'component over printable ASCII, in three path shapes and both roots; the written text '
              'is decoded by reference readers of GNU Make rule lines and Ninja paths; the Make '
              'reader is validated against /usr/bin/make on a systematic corpus and the set of names '
              'Make cannot represent is established with hand-written reference Makefiles on every '
              'run')
LEVEL_NOTE = ('trusted: rninja (no ninja binary), CrossHair string/regex models (+ vpx/chplugin.py); '
              'rmake.rule_words validated against real make 4.3 per run and deliberately partial (it '
              'declines wildcard / tilde / archive / assignment syntax instead of guessing); actual '
              'file creation and staleness detection by the tools are outside; the Path representation '
              'invariant is assumed (C12)')
HARNESS = 'vpx.harness.c04'
FUNCTIONS = ['bfg9000.backends.make.syntax.Writer.escape_str', 'Writer.write (BasePath branch)',
             'bfg9000.backends.make.writer.directory_deps', 'backends.make.writer.directory_rule', 'bfg9000.backends.make.syntax.Function.use / Call', 'bfg9000.builtins.find.write_depfile', 'bfg9000.path.BasePath.realize',
             'bfg9000.backends.make.syntax.Variable.use (qvar)', 'posix.inner_quote_info',
             'posix.wrap_quotes', 'bfg9000.backends.ninja.syntax.Writer.escape_str',
             'NinjaFile._write_build']
OUTSIDE = ['non-ASCII names', 'backslash in names and drive-letter forms (defined as separator / '
           'drive by bfg9000)', 'names Make cannot represent (list established at run time, see '
           'bounds)', 'file creation / staleness detection by the real tools', 'depth > 2',
           'rm/clean and install arguments (shell arguments: C01 k_path_arg)',
           "ninja's own depfile parser"]
STUBS = []
ASSUMPTIONS = ['Path suffix representation invariant (C12)', 'rninja trusted']
MAKE_FNS = ['mt_target', 'mv_target_var', 'md_prereq', 'mo_dir_sentinel', 'mr_auto_var', 'mf_find_deps',
            'ms_source_prereq', 'mi_include', 'mx_dir_rule', 'mc_call_arg']
NINJA_FNS = ['nt_output', 'ni_input', 'nb_build_line']
CORPUS_ALPHA = list("a\\ :#%*]~$|;=()'&\t")


def conformance(tier):
    k = 2 if tier == 'quick' else 3
    res = []
    for pos in ('target', 'prereq'):
        a, d, bad = cf.check_rmake_rule_words(list(cf.strings(CORPUS_ALPHA, k, 1)), pos)
        res.append(('rmake.rule_words (%s) vs /usr/bin/make' % pos, a, d, bad))
    ws = list(cf.strings(list("a\\ :#%*[]?~$|'&"), k, 1))
    for pos in ('target', 'prereq'):
        a, d, bad = cf.check_rmake_rule_words_existing(ws, pos)
        res.append(('rmake.rule_words (%s, named file exists) vs /usr/bin/make' % pos, a, d, bad))
    a, d, bad = cf.check_rmake_include(ws)
    res.append(('rmake.include_words vs /usr/bin/make -include', a, d, bad))
    return res


@functools.lru_cache(None)
def probe():
    """Which names can GNU Make represent at all?  For every printable ASCII character c and the
    names a<c>b, <c>b, a<c>: try the candidate spellings (raw, backslash-escaped, $$ for $, ./
    prefix) in hand-written rule lines, with and without decoy files in the directory; a name is
    representable if, for the target list and for the prerequisite list, some spelling gives
    exactly that name in both directory states."""
    chars = [chr(i) for i in range(32, 127) if chr(i) not in '/\\']
    jobs = []
    for c in chars:
        for shape, n in (('mid', 'a' + c + 'b'), ('lead', c + 'b'), ('trail', 'a' + c)):
            cands = {n.replace('$', '$$'), n.replace('$', '$$').replace(c, '\\' + c) if c != '$'
                     else n.replace('$', '$$')}
            if shape == 'lead':
                cands.add('./' + n.replace('$', '$$'))
            jobs.append((c, shape, n, sorted(cands)))

    def works(spelling, n, pos):
        for decoys in ((), (n, 'axb', 'ab', 'b', 'a')):
            r = cf.real_make_rule_names('00 ' + spelling + ' 99', pos, decoys=decoys)
            if not isinstance(r, list):
                return False
            got = sorted(set(x[2:] if x.startswith('./') else x for x in r))
            if got != sorted({'00', n, '99'}):
                return False
        return True

    def one(job):
        c, shape, n, cands = job
        good = {pos: [s for s in cands if works(s, n, pos)] for pos in ('target', 'prereq')}
        return c, shape, (good if good['target'] and good['prereq'] else None)
    unrep = {'mid': '', 'lead': '', 'trail': '', 'archive': ''}
    spell = {}
    with ThreadPoolExecutor(16) as ex:
        for c, shape, good in ex.map(one, jobs):
            if not good:
                unrep[shape] += c
            else:
                spell[(c, shape)] = good
    # lib(member): the -p database cannot tell an archive member from a file of that name, so this
    # one is probed through the observable itself: is the target up to date after it was built?
    ok_spellings = []
    for sp in ('a(b)', 'a\\(b\\)', 'a\\(b)', 'a(b\\)'):
        mk = 'all: %s\n\t@true\n%s:\n\t@echo BUILDING; touch "a(b)"\n' % (sp, sp)
        import os
        import subprocess
        with cf.Scratch() as sc:
            sc.write('Makefile', mk)
            r1 = subprocess.run([cf.MAKE, '-s'], cwd=sc.dir, capture_output=True)
            r2 = subprocess.run([cf.MAKE, '-s'], cwd=sc.dir, capture_output=True)
            if (r1.returncode == 0 and r2.returncode == 0 and b'BUILDING' in r1.stdout and
                    b'BUILDING' not in r2.stdout and os.path.exists(sc.path('a(b)'))):
                ok_spellings.append(sp)
    if not ok_spellings:
        unrep['archive'] = 'a(b)'
    return unrep, spell


def bounds(tier):
    unrep, _ = probe()
    return {'component_length': '1..2 quick (2 only for shape d/<c> in the build dir, and for target/'
                                'prerequisite/ninja-output in all shapes) / 1..3 thorough, printable ASCII',
            'shapes': ['d/<c>', '<c>', '<c>/leaf.o'], 'roots': ['builddir', 'srcdir'],
            'make_unrepresentable_anywhere': unrep['mid'],
            'make_unrepresentable_leading': unrep['lead'],
            'make_unrepresentable_trailing': unrep['trail'],
            'make_archive_member_form_unrepresentable': bool(unrep['archive']),
            'ninja_unrepresentable': '|'}


def obligations(tier, kf):
    unrep, _ = probe()
    nmax = 2 if tier == 'quick' else 3
    excl = ''.join(sorted(set(unrep['mid'])))
    kf = dict(kf, excl_archive=bool(unrep['archive']))
    obs = []
    T = {1: 400, 2: 900, 3: 3000}
    for shape in (0, 1, 2):
        for rooti in (0, 1):
            if tier == 'quick' and (shape, rooti) not in ((0, 0), (1, 1), (2, 0)):
                continue
            for fn in MAKE_FNS + NINJA_FNS:
                if fn == 'mo_dir_sentinel' and shape == 1:
                    continue
                if fn == 'mx_dir_rule' and (shape == 2 or rooti == 1):
                    continue
                for n in range(1, nmax + 1):
                    if tier == 'quick' and fn == 'ms_source_prereq' and (shape, rooti) == (0, 0):
                        pass       # length 3 below
                    if tier == 'quick' and n == 2 and (shape, rooti) != (0, 0) and \
                            fn not in ('mt_target', 'mv_target_var', 'md_prereq', 'nt_output', 'ms_source_prereq'):
                        continue
                    p = dict(kf, N=n, shape=shape, rooti=rooti, excl=excl)
                    ob = Ob(fn, p, T[n], desc='%s shape#%d root#%d |c|==%d' % (fn, shape, rooti, n))
                    obs.append(ob)
                    if n == 1 and shape == 0 and rooti == 0:
                        obs.append(ob.twin())
                    if n == 2 and shape == 0 and rooti == 0:
                        for m in MUTANTS.get(fn, []):
                            obs.append(ob.mutant(m))
    # a directory whose name starts with the sentinel's own name
    dr = Ob('mx_dir_rule', dict(kf, N=1 if tier == 'quick' else 2, shape=0, rooti=0, excl=excl, cprefix='.dir'), 900,
            desc='mx_dir_rule, component .dir<c>')
    obs += [dr, dr.mutant('dir_rule_subst')]
    if tier == 'quick':
        # '[x]' needs three characters
        obs.append(Ob('ms_source_prereq', dict(kf, N=3, shape=0, rooti=0, excl=excl, first='['),
                      900, desc='ms_source_prereq shape#0 root#0 |c|==3 starting with ['))
    obs.append(Ob('ms_source_prereq', dict(kf, N=3, shape=0, rooti=0, excl=excl, first='['),
                  900).mutant('make_dep_no_bracket'))
    return obs


MUTANTS = {'mt_target': ['make_target_no_colon'], 'mv_target_var': ['make_target_var_line_reescaped'], 'md_prereq': ['make_dep_no_pipe'],
           'mi_include': ['make_include_double_escape'],            'mf_find_deps': ['depfile_target_escape_for_prereq'], 'mc_call_arg': ['make_function_no_comma_escape'],
           'nt_output': ['ninja_path_no_colon'], 'mr_auto_var': ['make_qvar_unquoted']}


def classify(ob, cex):
    c = cex['args'][0]
    if ob.fn.startswith('m') and ob.fn not in ('mr_auto_var', 'mi_include', 'ms_source_prereq', 'mx_dir_rule', 'mc_call_arg'):
        if c.startswith('~') and ob.params.get('shape') == 1:
            return 'C04-F10'
        if '[' in c:
            return 'C04-F9'
    if ob.fn == 'mc_call_arg' and ',' in c:
        return 'C04-F19'
    if ob.fn == 'mx_dir_rule' and ('  ' in c or (ob.params.get('cprefix', '') + c).startswith('.dir ')):
        return 'C04-F18'
    if ob.fn == 'mx_dir_rule' and "'" in c:
        return 'C04-F11'
    if ob.fn == 'mi_include' and (':' in c or '%' in c or c.startswith('~')):
        return 'C04-F15'
    if ob.fn == 'mr_auto_var' and "'" in c:
        return 'C04-F11'
    return None


def real_replay(ob, cex):
    """the counterexample name in a real Makefile written by the real Makefile class, read by the
    real make (-p database)"""
    import io
    from bfg9000.backends.make.syntax import Makefile, Syntax
    from bfg9000.path import Path, Root
    c = cex['args'][0]
    shape = ob.params.get('shape', 0)
    suffix = ['d/' + c, c, c + '/leaf.o'][shape]
    if ob.fn not in ('mt_target', 'md_prereq'):
        return None
    p = Path.__new__(Path)
    p.suffix, p.root, p.directory, p.destdir = suffix, Root.builddir, False, False
    mk = Makefile('build.bfg')
    out = mk.writer(io.StringIO())
    out.write(p, Syntax.target if ob.fn == 'mt_target' else Syntax.dependency)
    pos = 'target' if ob.fn == 'mt_target' else 'prereq'
    r = cf.real_make_rule_names('aa ' + out.stream.getvalue() + ' zz', pos)
    ok = isinstance(r, list) and sorted(set(r)) == sorted({'aa', suffix, 'zz'})
    return {'reproduced': not ok, 'detail': {'written': out.stream.getvalue(), 'make_reads': r,
                                             'wanted': suffix}}


def regex_selftest():
    from bfg9000.backends.make.syntax import Writer
    import re
    rep = lambda m: m.group(1) * 2 + chr(92) + m.group(2)   # noqa: E731
    return [('make target_ex', Writer._Writer__target_ex, rep, 'a~ #%:]' + chr(92)),
            ('make dep_ex', Writer._Writer__dep_ex, rep, 'a~|*[%' + chr(92)),
            ('ninja path escape', re.compile(r'([:$ ])'), r'$\1', 'a:$ |')]

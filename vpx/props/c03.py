"""C03 -- the generated dependency graph equals the script's graph (local obligations)."""
from vpx.run import Ob

ID = 'C03'
LEVEL_TEXT = ('bounded symbolic execution (CrossHair/z3) of (L1) the real builtins object_files / '
              'static_library / executable / build_step / copy_file / alias and their real Make and '
              'Ninja handlers over every shape of a small script (number of sources, library or not, '
              'extra dependencies on compile and link steps, one or two outputs, alias or not): each '
              'produced file has exactly one producing rule and every step depends on everything it '
              'consumes, looking through stamp/phony indirections; (L3) DefaultOutputs over every '
              'history of link/default/install/test calls on three outputs and the `all` rules of '
              'both backends; (L2) duplicate-target rejection is C05 r_dup_make/r_dup_ninja')
LEVEL_NOTE = ('compositional argument (DESIGN.md §3 C03): both backends emit each edge independently, '
              'so per-edge correctness + unique producers + exact members of the aggregate targets '
              'imply the global statement under Make/Ninja semantics; the obligations look at the '
              'Makefile/NinjaFile *objects* the handlers fill (their textual escaping is C04); actual '
              'rebuild sets, header dependencies discovered by the compiler (C07) and test/install '
              'targets are outside; file names are concrete, shapes symbolic')
HARNESS = 'vpx.harness.c03'
FUNCTIONS = ['bfg9000.builtins.compile.make_compile/ninja_compile', 'builtins.link.make_link/'
             'ninja_link/StaticLink/DynamicLink', 'builtins.command.make_command/ninja_command',
             'builtins.copy_file.make_copy_file/ninja_copy_file', 'builtins.alias.make_alias/'
             'ninja_alias', 'backends.make.writer.multitarget_rule/directory_deps',
             'Makefile.rule', 'NinjaFile.build', 'bfg9000.builtins.default.DefaultOutputs.add/remove/'
             'outputs', 'make_all_rule', 'ninja_all_rule']
OUTSIDE = ['rebuild behaviour after touching a file', 'generated sources through real lex/yacc',
           'test / install / regenerate targets', 'symbolic file names', 'scripts larger than the '
           'shape space', 'MSBuild']
STUBS = ['Environment built once at import with the real gcc detection']
ASSUMPTIONS = ['an output is linked by exactly one step; default()/install()/test() are only '
               'called on existing outputs (the builtins take file objects)']
EXHAUSTIVE = True


def bounds(tier):
    return {'script_shapes': ('one source: all 384 shapes; two sources: the 48 shapes without and with all of '
                              'includes/prebuilt/versioned/pch; of ' if tier == 'quick' else '') +
                             '2 x 2 x 3 x 2 x 2 x 2 x 2 x 2 x 2 = 768 (sources 1-2, static library, 0-2 '
                             'extra deps on link/generate, 0-1 on compile, 1-2 generator outputs, alias, '
                             'header file via includes=, pre-existing library, versioned shared library, '
                             'precompiled header; x2)',
            'default_histories': '%d operations over 3 outputs x {link, default, install, test}' %
                                 (3 if tier == 'quick' else 4)}


def obligations(tier, kf):
    q = tier == 'quick'
    obs = []
    for nf in (1, 2):
        for hl in (0, 1):
            for hx in range(16):
                if q and nf == 2 and hx not in (0, 15):
                    continue       # two sources: only the plain and the all-features shape
                obs.append(Ob('e_edges', {'NFILES': nf, 'HASLIB': hl, 'HX': hx}, 1500,
                              desc='script shapes with %d sources, library=%d, includes/prebuilt/'
                                   'versioned=%d' % (nf, hl, hx)))
    obs.append(Ob('e_edges', {'NFILES': 1, 'HASLIB': 0, 'HX': 15}, 300).twin())
    obs.append(Ob('e_edges', {'NFILES': 1, 'HASLIB': 0, 'HX': 0}, 900).mutant('make_link_drops_extra_deps'))
    obs.append(Ob('e_edges', {'NFILES': 1, 'HASLIB': 1, 'HX': 0}, 900).mutant('ninja_link_drops_libs'))
    obs.append(Ob('e_edges', {'NFILES': 1, 'HASLIB': 0, 'HX': 0}, 900).mutant('multitarget_no_stamp_deps'))
    k = Ob('k_always_outdated', {}, 600, desc='always_outdated build steps with 1-2 outputs')
    obs += [k, k.twin(), k.mutant('multitarget_phony_on_alias')]
    for p0 in range(12):
        if q:
            obs.append(Ob('d_defaults', {'NO': 3, 'P0': p0}, 900,
                          desc='default-set histories of 3 calls, first call #%d' % p0))
        else:
            for p1 in range(12):
                obs.append(Ob('d_defaults', {'NO': 4, 'P0': p0, 'P1': p1}, 1500,
                              desc='default-set histories of 4 calls, first calls #%d #%d' % (p0, p1)))
    for n in (0, 1, 2):
        obs.append(Ob('d_defaults', {'NO': n}, 600, desc='default-set histories of %d calls' % n))
    obs.append(Ob('d_defaults', {'NO': 2}, 120).twin())
    obs.append(Ob('d_defaults', {'NO': 3, 'P0': 0}, 600).mutant('defaults_remove_from_explicit'))
    obs.append(Ob('d_defaults', {'NO': 3, 'P0': 0}, 600).mutant('all_rule_uses_fallback'))
    obs.append(Ob('d_defaults', {'NO': 2}, 600).mutant('driver_test_stays_default'))
    return obs

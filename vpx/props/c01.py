"""C01 -- Make backend: every argument reaches the spawned process unchanged."""
import io

from vpx.run import Ob
from vpx import conformance as cf
from vpx import e2 as E2
from vpx.models import rsh, rmake

ID = 'C01'
LEVEL_TEXT = 'bounded symbolic execution (CrossHair/z3) of the real Make writer and sh quoting code for every string up to the stated length over all of Unicode, in 12 argument positions, decoded by reference models of GNU Make and sh that are validated against the real tools on every run; counterexamples replayed with real make + sh'
LEVEL_NOTE = "trusted: CrossHair's string/regex models (+ vpx/chplugin.py), rmake/rsh reference models (validated against /usr/bin/make 4.3 and /bin/sh per run); bounded: string length, one symbolic argument per line"
HARNESS = 'vpx.harness.c01'
FUNCTIONS = [
    'bfg9000.backends.make.syntax.Writer.write', 'Writer.write_shell', 'Writer.write_each',
    'Writer.escape_str', 'Makefile._write_variable', 'Variable.use', 'Pattern.use',
    'bfg9000.shell.posix.inner_quote_info', 'posix.wrap_quotes', 'posix.quote_info',
    'posix.split', 'posix.listify', 'posix.global_env', 'posix.local_env', 'posix.join_lines',
    'posix.escape_line', 'bfg9000.safe_str.jbos (canonicalisation)',
    'bfg9000.builtins.tests._build_commands', 'bfg9000.path.BasePath.realize',
]
OUTSIDE = [
    'strings longer than the stated bound', 'NUL/CR/LF (excluded by the property)',
    'string-form commands', 'GNU Make versions other than 4.3', 'MSYS/Windows Make',
    'more than one symbolic argument per command line',
]
STUBS = []
ASSUMPTIONS = [
    'rmake (GNU Make 4.3 reading of recipe lines and := assignments) and rsh (POSIX sh word '
    'parsing) are reference models; both are validated against /usr/bin/make and /bin/sh on a '
    'systematic corpus in every run (conformance) and every counterexample is replayed against '
    'the real make + sh before it is reported',
    'CrossHair 0.0.110 string/regex models with the re.sub fix of vpx/chplugin.py',
]

POSITIONS = ['a_recipe_arg', 'b_command_word', 'b_command_word_silent', 'c_global_variable',
             'c_global_variable_first', 'd_target_variable', 'e_global_env', 'f_local_env',
             'g_nested_driver', 'h_option_string', 'k_path_arg', 'k_include_dir']
MUTANTS = {
    'a_recipe_arg': ['posix_quote_safe', 'make_no_dollar'],
    'c_global_variable': ['make_no_dollar'],
    'g_nested_driver': ['posix_quote_safe'],
}


def bounds(tier):
    n = 2 if tier == 'quick' else 4
    return {'string_length': '0..%d (every exact length is one obligation; quick adds length 3 for '
                             'position a; thorough: 4 for a,b,e,f,g,k_path, 3 for the others)' % n,
            'alphabet': 'all Unicode code points except NUL, CR, LF',
            'symbolic_arguments_per_line': 1, 'make': 'GNU Make 4.3'}


def obligations(tier, kf):
    nmax = 2 if tier == 'quick' else 4
    obs = []
    for fn in POSITIONS:
        for n in range(1 if fn[0] in 'bk' else 0, nmax + 1):
            if n == 4 and fn in ('c_global_variable', 'c_global_variable_first',
                                 'd_target_variable', 'h_option_string', 'k_include_dir'):
                continue
            p = {'N': n}
            p.update(kf)
            t = {0: 60, 1: 60, 2: 200, 3: 900, 4: 3000}[n]
            ob = Ob(fn, p, t, desc='make position %s, |s| == %d' % (fn, n))
            obs.append(ob)
            if n == 1:
                obs.append(ob.twin())
            if n == 2:
                for m in MUTANTS.get(fn, []):
                    obs.append(ob.mutant(m))
        if tier == 'quick' and fn in ('a_recipe_arg',):
            p = {'N': 3}
            p.update(kf)
            obs.append(Ob(fn, p, 600, desc='make position %s, |s| == 3' % fn))
    # options of one step must not reach the commands of the steps it depends on: GNU Make hands
    # target-specific variables down to prerequisites (harness shared with C06)
    for n in (0, 1) if tier == 'quick' else (0, 1, 2):
        obs.append(Ob('p_prereq', {'N': n}, 600 if n < 2 else 3000, module='vpx.harness.c06',
                      desc='compile step built as a prerequisite of a step with the option <s>, |s| == %d' % n))
    pp = Ob('p_prereq', {'N': 1}, 600, module='vpx.harness.c06')
    obs += [pp.twin(), pp.mutant('make_flags_vars_global')]
    return obs


ALPHA = "a'\\ #$,@-+\t:=~&*"


def conformance(tier):
    from bfg9000.shell import posix as pshell
    k = 2 if tier == 'quick' else 3
    res = []
    raw = list(cf.strings(ALPHA, k))
    # sh: raw lines, bfg-quoted words, env forms
    lines = ['prog ' + s for s in raw] + ['prog ' + pshell.quote(s) for s in raw] + \
            ['V=' + pshell.quote(s) + ' prog' for s in raw] + \
            ['export V=' + pshell.quote(s) + ' && prog x' for s in raw] + \
            [s + ' x' for s in cf.strings(ALPHA, 2, 1)]
    ws = list(cf.strings('V=:~a', 4, 1))
    lines += ['prog ' + w for w in ws] + [w + ' prog' for w in ws] + \
             ['export ' + w + ' && prog' for w in ws]
    a, u, bad = cf.check_rsh(lines)
    res.append(('rsh vs /bin/sh', a, u, bad))
    a, u, bad = cf.check_rmake_assign(raw, vars=((',', ','),), prelude=', := ,\n')
    res.append(('rmake := vs /usr/bin/make', a, u, bad))
    a, u, bad = cf.check_rmake_recipe(raw)
    res.append(('rmake recipe vs /usr/bin/make', a, u, bad))
    return res


def e2(tier):
    from bfg9000.shell import posix as pshell
    bad = E2.class_pred(pshell._bad_chars.pattern)
    sh_special = rsh.HARD + "'\\ \t&#~!{}"
    make_recipe_special = '$'
    qs = []
    qs.append(E2.query(
        'every code point rsh treats as special when unquoted is forced into quotes by '
        'posix._bad_chars (all Unicode)',
        lambda c: [E2.in_set(c, sh_special + make_recipe_special), z3not(bad(c))]))
    return qs


def z3not(x):
    import z3
    return z3.Not(x)


def _makefile_for(fn, cex):
    """Build a complete Makefile with the real Makefile class that puts the counterexample in the
    position the harness `fn` exercises; returns (text, expected calls) or None."""
    from bfg9000.backends.make.syntax import Makefile, Variable, Silent, Section
    from bfg9000.shell import posix as pshell
    from bfg9000.path import Path, Root
    from bfg9000 import safe_str
    s = cex['args'][0]
    mk = Makefile('build.bfg', gnu=True)
    mk.variable('srcdir', '.', Section.path)
    exp_env = {'V': '', 'W': ''}
    if fn == 'a_recipe_arg':
        mk.rule('all', recipe=[['prog', s]], phony=True)
        exp = ['prog', s]
    elif fn == 'b_command_word':
        mk.rule('all', recipe=[[s, 'x']], phony=True)
        exp = [s, 'x']
    elif fn == 'b_command_word_silent':
        mk.rule('all', recipe=[Silent([s, 'x'])], phony=True)
        exp = [s, 'x']
    elif fn == 'c_global_variable':
        v = mk.variable('FLAGS', ['-a', s], Section.flags)
        mk.rule('all', recipe=[['prog', v]], phony=True)
        exp = ['prog', '-a', s]
    elif fn == 'c_global_variable_first':
        v = mk.variable('FLAGS', [s, '-b'], Section.flags)
        mk.rule('all', recipe=[['prog', v]], phony=True)
        exp = ['prog', s, '-b']
    elif fn == 'd_target_variable':
        g = mk.variable('GLOBAL', ['-g'], Section.flags)
        mk.rule('all', recipe=[['prog', Variable('FLAGS'), '-o', 'x']], phony=True,
                variables={'FLAGS': [g, s]})
        exp = ['prog', '-g', s, '-o', 'x']
    elif fn == 'e_global_env':
        mk.rule('all', recipe=[pshell.global_env({'V': s}, [['prog', 'x']])], phony=True)
        exp = ['prog', 'x']
        exp_env['V'] = s
    elif fn == 'f_local_env':
        mk.rule('all', recipe=[pshell.local_env({'V': s}, ['prog', 'x'])], phony=True)
        exp = ['prog', 'x']
        exp_env['V'] = s
    elif fn == 'h_option_string':
        try:
            parts = pshell.listify(s)
        except ValueError:
            return None
        mk.rule('all', recipe=[['prog'] + parts], phony=True)
        exp = ['prog'] + parts
    elif fn == 'k_path_arg':
        mk.rule('all', recipe=[['prog', Path('./d/' + s, Root.srcdir)]], phony=True)
        if Path('./d/' + s, Root.srcdir).suffix != 'd/' + s:
            return None
        exp = ['prog', './d/' + s]
    elif fn == 'k_include_dir':
        if Path('./' + s).suffix != s:
            return None
        g = mk.variable('GLOBAL', ['-g'], Section.flags)
        mk.rule('all', recipe=[['prog', Variable('FLAGS')]], phony=True,
                variables={'FLAGS': [g, safe_str.jbos('-I', Path('./' + s))]})
        exp = ['prog', '-g', '-I./' + s]
    else:
        return None
    out = io.StringIO()
    mk.write(out)
    return out.getvalue(), (exp_env, exp)


def real_replay(ob, cex):
    """Counterexample -> real Makefile class -> real make 4.3 + /bin/sh with recorder stubs."""
    if ob.fn not in POSITIONS:
        return None      # shared whole-rule obligations: the harness body runs the real handlers
    try:
        built = _makefile_for(ob.fn, cex)
    except Exception as e:   # noqa
        return {'reproduced': True, 'detail': 'writer raised %s: %s' % (type(e).__name__, e)}
    if built is None:
        return None
    text, (exp_env, exp) = built
    if ob.fn == 'h_option_string':
        # second half of the obligation: the split itself must be what /bin/sh does with the string
        o = cex['args'][0]
        if not any(ch in o for ch in '\\"$`'):
            with cf.Scratch() as sc:
                real = cf.real_sh('prog ' + o, sc.dir, 0, 'prog')
            if isinstance(real[0], dict) and real[1] != exp:
                return {'reproduced': True, 'detail': {'option_string': o, 'bfg9000_split': exp[1:],
                                                       'real_sh_split': real[1][1:]}}
    stub = exp[0]
    if '/' in stub or stub in ('', '.', '..') or stub in cf.SH_BUILTINS:
        return None
    r = cf.run_makefile(text, 'all', stubs=(stub,))
    ok = (r['rc'] == 0 and len(r['calls']) == 1 and r['calls'][0][1] == exp and
          r['calls'][0][0] == exp_env)
    return {'reproduced': not ok, 'detail': {'expected': [exp_env, exp], 'rc': r['rc'],
                                             'calls': r['calls'], 'stderr': r['stderr']}}


def classify(ob, cex):
    s = cex['args'][0]
    if not isinstance(s, str) or ob.fn not in POSITIONS:
        return None
    if ob.fn.startswith('b_command_word') and s[:1] in ('@', '-', '+'):
        return 'C01-F3'
    k = s.find('=')
    if ob.fn.startswith('b_command_word') and k > 0 and rsh._is_name(s[:k]):
        return 'C01-F12'
    return None


def concrete_crosscheck(tier, kf):
    """Harness bodies run concretely (untraced) on every string of length <= 2 over the
    interesting alphabet."""
    import importlib
    import os
    os.environ['VPX_PARAMS'] = '{}'
    h = importlib.import_module(HARNESS)
    n = 0
    fails = []
    for fn in POSITIONS:
        f = getattr(h, fn)
        for s in cf.strings(ALPHA, 2):
            if fn.startswith('b_') and (s == '' or (kf.get('kf_cmdword') and s[0] in '@-+')):
                continue
            if fn.startswith('b_') and kf.get('kf_cmdassign') and h._assign_like(s):
                continue
            if fn.startswith('k_') and not h._path_ok(s):
                continue
            h.N = len(s)
            n += 1
            try:
                ok = f(s)
            except Exception:   # noqa
                ok = False
            if not ok:
                fails.append((fn, (s,)))
    return n, fails


def regex_selftest():
    import re
    from bfg9000.backends.make.syntax import Writer
    from bfg9000.shell import posix as pshell
    rep = lambda m: m.group(1) * 2 + chr(92) + m.group(2)   # noqa: E731
    return [('make target_ex', Writer._Writer__target_ex, rep, 'a~ #%:' + chr(92)),
            ('make dep_ex', Writer._Writer__dep_ex, rep, 'a~|*[' + chr(92)),
            ('make variable #', re.compile(r'(\\*)#'), lambda m: m.group(1) * 2 + chr(92) + '#',
             'a#' + chr(92)),
            ('posix _bad_chars', pshell._bad_chars, None, "a' -=")]

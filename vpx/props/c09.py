"""C09 -- saved configuration: EnvVarDict history invariant and snapshot round trips."""
from vpx.run import Ob

ID = 'C09'
LEVEL_TEXT = ('bounded symbolic execution (CrossHair/z3) of the real EnvVarDict over every history '
              'of 2 (quick) / 3 (thorough) operations out of set/del/pop/setdefault/update/clear/'
              'popitem/reset on 3 keys with arbitrary string values, from enumerated initial maps: '
              'initial (+) changes == current, JSON round trip (incl. lazily recomputed changes), '
              'reset; Path / Toolchain snapshot round trips for every path string up to the bound '
              'and every root; the version gate of Environment.load for every version number')
LEVEL_NOTE = ('claimed for the state kernels only: the JSON text layer is the stdlib C encoder '
              '(modelled structurally: dict/list copy with key->str), keys come from a fixed '
              '3-element set (real dict hashing would concretise symbolic keys), values are two '
              'arbitrary strings per history; the upgrade chain from older on-disk versions, whether '
              'any tool reads os.environ directly, and `bfg9000 env/run` processes are outside')
HARNESS = 'vpx.harness.c09'
FUNCTIONS = ['bfg9000.environment.EnvVarDict.__init__', '__setitem__', '__delitem__', 'pop',
             'popitem', 'setdefault', 'update', 'clear', 'reset', 'changes', 'to_json', 'from_json',
             'bfg9000.environment.Toolchain.to_json/from_json', 'BasePath.to_json/from_json',
             'bfg9000.environment.Environment.load (version gate, upgrade chain 4..17, object construction)', 'Environment.reload',
             'bfg9000.build.load_toolchain', 'bfg9000.builtins.toolchain.install_dirs']
OUTSIDE = ['histories longer than the bound', 'symbolic variable *names*', 'snapshot versions below 4 (no record of their format)', 'Environment.save of the complete object (tool detection)', 'ambient environment of later invocations']
STUBS = ['json.dump/json.load -> structural copy (_jsonish)', 'open()/json.load in environment.py -> in-memory '
         'snapshot', 'older snapshot versions are produced by _downgrade, the inverse of the format history documented in Environment.load (reference model; checked against the one old fixture the repository ships, version 4)']
ASSUMPTIONS = ['the stdlib json module round-trips str/list/dict/bool/None faithfully']
EXHAUSTIVE = True


def bounds(tier):
    return {'history_length': 2 if tier == 'quick' else 3,
            'operations': ['setitem', 'delitem', 'pop', 'setdefault', 'update', 'clear', 'popitem',
                           'reset'], 'keys': 3,
            'values': 'two arbitrary strings of length <= 2 (all Unicode)',
            'initial_maps': 'enumerated: {A}, {A,B} (quick) + {}, {A,B,C} (thorough)',
            'snapshot_versions': '4..17, symbolic project argument / variable value (length <= %d), library mode and compdb switches' % (1 if tier == 'quick' else 2),
            'path_strings': 'length <= %d, 5 roots, directory flag' % (2 if tier == 'quick' else 3)}


def obligations(tier, kf):
    q = tier == 'quick'
    obs = []
    inits = [1, 2] if q else [0, 1, 2, 3]
    for init in inits:
        for o0 in range(8):
            obs.append(Ob('h_history', {'NO': 2, 'VL': 2, 'O0': o0, 'INIT': init}, 900,
                          desc='2 operations, first op #%d, initial map #%d' % (o0, init)))
    if not q:
        for o0 in range(8):
            for o1 in range(8):
                obs.append(Ob('h_history', {'NO': 3, 'VL': 1, 'O0': o0, 'O1': o1, 'INIT': 2}, 3000,
                              desc='3 operations, first ops #%d #%d' % (o0, o1)))
    obs.append(Ob('h_history', {'NO': 1, 'VL': 1, 'INIT': 1}, 120).twin())
    obs.append(Ob('h_history', {'NO': 2, 'VL': 1, 'O0': 2, 'INIT': 2}, 600).mutant('envvar_pop_unrecorded'))
    obs.append(Ob('h_history', {'NO': 2, 'VL': 1, 'O0': 0, 'INIT': 1}, 600).mutant('envvar_reset_keeps_changes'))
    obs.append(Ob('h_history', {'NO': 2, 'VL': 1, 'O0': 1, 'INIT': 2}, 600).mutant('envvar_lazy_changes_no_removed'))
    for init in (1, 2):
        tr = Ob('t_toolchain_replay', {'NO': 1 if q else 2, 'VL': 1, 'INIT': init}, 1500,
                desc='toolchain replay after a history of <= %d changes, initial map #%d' % (
                    1 if q else 2, init))
        obs.append(tr)
    obs.append(Ob('t_toolchain_replay', {'NO': 1, 'VL': 1, 'INIT': 1}, 120).twin())
    obs.append(Ob('t_toolchain_replay', {'NO': 1, 'VL': 1, 'INIT': 1}, 300).mutant('toolchain_lazy_no_reload'))
    for n in range(0, (2 if q else 3) + 1):
        obs.append(Ob('j_path_json', {'N': n}, 1500, desc='path snapshot, |s| <= %d' % n))
    obs.append(Ob('j_path_json', {'N': 1}, 120).twin())
    obs.append(Ob('j_path_json', {'N': 2}, 600).mutant('path_json_no_dir'))
    g = Ob('g_upgrade', {'VL': 1 if tier == 'quick' else 2}, 900,
           desc='snapshots of every older format version 4..17 (inverse format history) load to the recorded configuration')
    obs += [g, g.twin(), g.mutant('env_upgrade_v8_merged_into_v9'), g.mutant('env_upgrade_initial_or_current')]
    di = Ob('d_install_dirs_replay', {'VL': 1 if tier == 'quick' else 2}, 600,
            desc='install_dirs() of a toolchain file under the three regeneration modes')
    obs += [di, di.twin(), di.mutant('toolchain_install_dirs_lazy')]
    obs.append(Ob('v_version_gate', {}, 300, desc='every snapshot version 0..40'))
    obs.append(Ob('v_version_gate', {}, 120).twin())
    obs.append(Ob('v_version_gate', {}, 300).mutant('env_version_gate_off_by_one'))
    return obs


def conformance(tier):
    """the inverse format history used by g_upgrade, at the one old version the repository ships a
    real snapshot for (test/data/environment/v4): same keys, same value shapes"""
    import importlib
    import json
    import os
    import bfg9000
    h = importlib.import_module(HARNESS)
    fx = os.path.join(os.path.dirname(os.path.dirname(bfg9000.__file__)), 'test', 'data',
                      'environment', 'v4', '.bfg_environ')
    if not os.path.exists(fx):
        return [('inverse format history vs the shipped v4 snapshot', 0, 1, [])]
    real = json.load(open(fx))
    mine = h._downgrade(h._v17('a', True, False, True, 'v'), real['version'])

    def shape(x):
        if isinstance(x, dict):
            return {k: shape(v) for k, v in x.items() if k != 'variables'}
        if isinstance(x, list):
            return [shape(i) for i in x]
        return type(x).__name__
    a, b = shape(real['data']), shape(mine)
    bad = [] if a == b else [('v4 snapshot shape', b, a)]
    return [('inverse format history (_downgrade) vs the shipped v4 snapshot', 1 - len(bad), 0, bad)]

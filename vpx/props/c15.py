"""C15 -- install / uninstall place and remove exactly the declared files (mapping kernel)."""
from vpx.run import Ob

ID = 'C15'
LEVEL_TEXT = ('bounded symbolic execution (CrossHair/z3) of installify for every file name and '
              'directory= argument (5 installable kinds), of InstallOutputs over every dependency DAG '
              'of 4 binaries and every explicit subset, and of the real make_install_rule / '
              'ninja_install_rule on a real Environment with the install prefix and DESTDIR symbolic: '
              'the emitted install / uninstall recipes, evaluated by the Make / Ninja + sh reference '
              'models, hand the copy tool exactly DESTDIR + directory + suffix and remove exactly '
              'that path; a header directory with files in nested subdirectories (uninstall removes '
              'exactly what the install command creates); patchelf.post_install over every sequence of '
              '<= 3 (4) link options of four kinds (rpath rewritten iff the build-tree value differs)')
LEVEL_NOTE = ('claimed for the mapping kernel: what doppel / patchelf then do on disk is outside; file '
              'names are concrete in the recipe obligations (InstallOutputs keys a dict by file, '
              'hashing would realise symbolic names; names travel through the writers in C01/C04), '
              'one of {prefix, DESTDIR} is symbolic per obligation; rninja trusted; matching of '
              'include patterns against the tree is C11\'s')
HARNESS = 'vpx.harness.c15'
FUNCTIONS = ['bfg9000.builtins.install.installify', 'InstallOutputs.add', 'InstallOutputs._add_implicit',
             '_install_files', '_uninstall_files', '_add_install_paths', 'make_install_rule',
             'ninja_install_rule', 'bfg9000.file_types.*.install_suffix/install_root/install_kind',
             'BasePath.realize (DestDir)', 'Makefile._write_variable', 'Writer.write_shell',
             'ninja.writer.command_build']
OUTSIDE = ['effects of doppel/patchelf on disk', 'header directories installed by include pattern',
           'what the post-install commands do (that every installed file gets its post-install step is checked)', 'mopack deploy', 'symbolic file names in the recipe '
           'obligations', 'prefix and DESTDIR symbolic at the same time']
STUBS = ['Environment built once at import with the real tool detection (doppel from /venv/bin, rm)']
ASSUMPTIONS = ['rmake/rsh validated in C01; rninja trusted']
KINDS = ['executable (build tree, sub dir)', 'shared library', 'header (source tree)', 'man page',
         'static library', 'generated man page in a build subdirectory']


def bounds(tier):
    q = tier == 'quick'
    return {'file_name_length': '1..%d (all Unicode)' % (2 if q else 3),
            'directory_argument_length': '0..%d' % (1 if q else 2),
            'prefix_or_destdir_length': '0..%d (all Unicode; / and backslash excluded)' % (2 if q else 3),
            'kinds': KINDS, 'dependency_dags': '4 binaries, all 2^6 DAGs x 2^4 explicit subsets'}


def obligations(tier, kf):
    q = tier == 'quick'
    obs = []
    for kind in range(6):
        for n in range(1, (2 if q else 3) + 1):
            obs.append(Ob('i_installify', dict(kf, N=n, M=1 if q else 2, kind=kind), 900,
                          desc='installify %s |name|==%d' % (KINDS[kind], n)))
    obs.append(Ob('i_installify', dict(kf, N=1, M=1, kind=0), 120).twin())
    obs.append(Ob('i_installify', dict(kf, N=1, M=1, kind=2), 300).mutant('installify_ignores_directory'))
    for fn in ('m_install_make', 'n_install_ninja'):
        for which in ('pfx', 'dest'):
            for kind in range(5):
                for n in range(0 if which == 'dest' else 1, (2 if q else 3) + 1):
                    if q and (n == 2 and kind != 0 or n != 1 and kind in (1, 4)):
                        continue
                    obs.append(Ob(fn, dict(kf, N=n, kind=kind, which=which), 1500,
                                  desc='%s %s symbolic |.|==%d, %s' % (fn, which, n, KINDS[kind])))
        obs.append(Ob(fn, dict(kf, N=1, kind=0, which='dest'), 120).twin())
    obs.append(Ob('m_install_make', dict(kf, N=1, kind=0, which='dest'), 300).mutant('install_no_destdir'))
    obs.append(Ob('n_install_ninja', dict(kf, N=1, kind=2, which='pfx'), 300).mutant('uninstall_wrong_root'))
    for kind in (0, 2):
        obs.append(Ob('n_install_ninja', dict(kf, N=1, kind=kind, which='pfx', dirs_reversed=True), 900,
                      desc='n_install_ninja with the install-directory mapping in reverse insertion order, %s' % KINDS[kind]))
    obs.append(Ob('n_install_ninja', dict(kf, N=1, kind=2, which='pfx', dirs_reversed=True), 300).mutant('install_paths_in_mapping_order'))
    hd = Ob('h_header_dir', dict(kf), 600, desc='header directory with nested files, 4 subdirectory names')
    obs += [hd, hd.twin(), hd.mutant('uninstall_dir_flattened')]
    xp = Ob('x_post_install', {'NSEQ': 3 if q else 4}, 1500,
            desc='post-install rpath rewrite, option sequences of <= %d over 4 option kinds' % (3 if q else 4))
    obs += [xp, xp.twin(), xp.mutant('patchelf_changed_assigned')]
    for e0 in range(4):
        obs.append(Ob('d_dep_closure', {'E0': e0}, 1500, desc='dependency closure, explicit[0:2] '
                                                               'partition %d' % e0))
    d = Ob('d_dep_closure', {'E0': 1}, 600)
    obs += [d.twin(), d.mutant('install_deps_shallow')]
    return obs


def classify(ob, cex):
    if ob.fn in ('m_install_make', 'n_install_ninja') and "'" in cex['args'][0]:
        return 'C15-F16'
    return None

"""C11 -- find_files returns exactly what the documented glob semantics select."""
import itertools

from vpx.run import Ob

ID = 'C11'
LEVEL_TEXT = ('bounded symbolic execution (CrossHair/z3) of PathGlob.match (incl. ** runs, wiggle '
              'room, three-valued pruning result), NameGlob.match, FileFilter._match_globs and '
              '_find_files / find / find_from_filter against the documented glob rules written as an '
              'executable specification: one obligation per pattern of a generated pattern set with '
              'the path (component list, directory flag) symbolic; component matchers on symbolic '
              'names over all of Unicode; the walk over a symbolic directory tree (entry kinds of a '
              '7-node skeleton) incl. pruning and the result cache')
LEVEL_NOTE = ('the pattern dimension is enumerated (generated finite set, stated in bounds), the '
              'path/tree dimension is explored symbolically and exhaustively within the bound; '
              'directory I/O is a stub (path.walk over the symbolic tree); "extra" entries are checked '
              'for soundness only (the documentation does not promise extras below pruned '
              'directories); symlink loops and real directories are outside')
HARNESS = 'vpx.harness.c11'
FUNCTIONS = ['bfg9000.glob.PathGlob.__init__', 'PathGlob._compile_glob', 'PathGlob._match_base',
             'PathGlob._match_glob_run', 'PathGlob._match_glob_runs', 'PathGlob.match',
             'NameGlob.match', 'bfg9000.builtins.find.FileFilter._match_globs', 'FileFilter.match',
             'FileFilter.bases', 'FindResult.__and__/__or__', '_find_files', 'find',
             'find_from_filter', 'FindCache.add/__getitem__', 'bfg9000.path.uniquetrees',
             'bfg9000.iterutils.list_view']
OUTSIDE = ['patterns outside the generated set / longer than 5 tokens', 'paths deeper than the bound',
           'real directory I/O, symlinks', 'filter= callbacks', 'Unicode normalisation of names',
           'completeness of "extra" entries below pruned directories']
STUBS = ['bfg9000.path.walk -> generator over the symbolic tree (honours in-place pruning of dirs)',
         'context / file-type constructors -> recording stand-ins']
ASSUMPTIONS = ['the documented rules as written in vpx/models/rglob.py are the specification; its '
               'component matcher is cross-checked against fnmatch on a corpus at import of the check']
EXHAUSTIVE = True
TOK = ['a', 'b', '*', '**']
MULTI = ['a/**/b/**/a', '**/a/**', '**/**/a', 'a/**/**/b', '*/**/a/*', '**/a/**/b/**', 'a/*/**/b',
         '**/*/**/a', 'a/**/*/**/b', '**/[a]/**/b', 'a/**/[b]/**/c']
DIRPATS = ['a/*/', '**/', 'a/**/b/', '*/']
FILTERS = [
    {'include': ['a/**/b', 'b/*'], 'exclude': ['c'], 'extra': ['a']},
    {'include': ['**/a'], 'exclude': ['b/'], 'extra': ['*']},
    {'include': ['a/*', 'a/**/b'], 'exclude': [], 'extra': []},
    {'include': ['*/a', '**/b/'], 'exclude': ['a'], 'extra': ['b']},
]
WALKS = [
    {'include': ['a/**/b', 'b/*'], 'exclude': ['c'], 'extra': ['a']},
    {'include': ['**/a'], 'exclude': ['b/'], 'extra': ['*']},
    {'include': ['a/**'], 'exclude': ['a/'], 'extra': []},
    {'include': ['**/'], 'exclude': [], 'extra': ['b']},
    {'include': ['a/*/b', '**/a/*'], 'exclude': [], 'extra': []},
    # nested literal prefixes plus a sibling that sorts between them as a string
    {'include': ['a/*', 'a./*', 'a/a/*'], 'exclude': [], 'extra': [], 'yname': 'a.'},
]


def patterns(maxlen):
    out = []
    for n in range(1, maxlen + 1):
        for t in itertools.product(TOK, repeat=n):
            if any('*' in x for x in t):
                out.append('/'.join(t))
    return out


def bounds(tier):
    q = tier == 'quick'
    return {'patterns': 'every token sequence of length <= %d over {a, b, *, **} with a glob (%d '
                        'patterns) + %r + directory patterns %r, types None/f/d/*'
                        % (2 if q else 3, len(patterns(2 if q else 3)), MULTI, DIRPATS),
            'paths': 'component lists of length <= %d over %s names, directory flag symbolic' %
                     (4 if q else 5, '2 (3 for the multi-** shapes)' if q else '3'),
            'pruning_extensions': 'length <= 2', 'component_names': 'length <= %d, all Unicode' %
                                                                    (2 if q else 3),
            'filters': FILTERS, 'walk_trees': '%d-node skeleton,' % (6 if q else 7) + ' kinds absent/file/dir per node',
            'walk_filters': WALKS}


def obligations(tier, kf):
    q = tier == 'quick'
    m = 4 if q else 5
    obs = []
    pats = patterns(2 if q else 3) + MULTI
    for p in pats:
        nn = 3 if (not q or p in MULTI) else 2
        obs.append(Ob('g_match', {'pattern': p, 'M': m, 'NN': nn}, 900,
                      desc='match, pattern %s' % p))
        obs.append(Ob('g_prune', {'pattern': p, 'M': m - 1, 'E': 2, 'NN': nn}, 900,
                      desc='pruning soundness, pattern %s' % p))
    for p in DIRPATS:
        obs.append(Ob('g_match', {'pattern': p, 'M': m}, 900, desc='match, pattern %s' % p))
    for t in ('f', 'd', '*'):
        obs.append(Ob('g_match', {'pattern': 'a/**/b', 'type': t, 'M': m}, 900,
                      desc='match, type %s' % t))
        obs.append(Ob('g_prune', {'pattern': '*/b', 'type': t, 'M': 3, 'E': 2}, 900))
    obs.append(Ob('g_match', {'pattern': 'a/**/b', 'M': 3}, 120).twin())
    obs.append(Ob('g_prune', {'pattern': 'a/*/b', 'M': 3, 'E': 1}, 120).twin())
    for cp in range(9):
        for n in range(1, (2 if q else 3) + 1):
            obs.append(Ob('n_component', {'cp': cp, 'N': n}, 600, desc='component pattern #%d' % cp))
    obs.append(Ob('n_component', {'cp': 3, 'N': 2}, 120).twin())
    for i, f in enumerate(FILTERS):
        obs.append(Ob('f_filter', dict(f, M=3, E=1 if q else 2), 1200, desc='filter #%d' % i))
    obs.append(Ob('f_filter', dict(FILTERS[0], M=2, E=1), 120).twin())
    for i, f in enumerate(WALKS):
        obs.append(Ob('w_walk', dict(f, nodes=7 if (not q or 'yname' in f) else 6), 1500,
                      desc='walk, filter #%d' % i))
    # the directory the walk starts from is a symbolic link
    wl = Ob('w_walk', dict(kf, nodes=6 if q else 7, link=0, **WALKS[2]), 1500,
            desc='walk, filter #2, its literal prefix a/ is a symbolic link to a directory')
    obs += [wl, wl.twin(), wl.mutant('walk_skips_symlinked_root')]
    obs.append(Ob('w_walk', dict(WALKS[0], nodes=5), 120).twin())
    # sensitivity twins
    obs.append(Ob('g_prune', {'pattern': 'a/**/b', 'M': 3, 'E': 2}, 300).mutant('glob_never_too_early'))
    obs.append(Ob('g_match', {'pattern': 'a/**/b/**/a', 'M': 4}, 300).mutant('glob_wiggle_off_by_one'))
    obs.append(Ob('g_match', {'pattern': '**/a', 'M': 3}, 300).mutant('glob_starstar_needs_one'))
    obs.append(Ob('w_walk', dict(WALKS[1], nodes=7), 600).mutant('filter_exclude_not_recursive'))
    obs.append(Ob('w_walk', dict(WALKS[0], nodes=7), 600).mutant('find_cache_drops_last'))
    obs.append(Ob('w_walk', dict(WALKS[5], nodes=7), 600).mutant('uniquetrees_string_sort'))
    obs.append(Ob('g_match', {'pattern': '**/[a]/**/b', 'M': 4}, 300).mutant('glob_starstar_flag_sticky'))
    return obs


def regex_selftest():
    import fnmatch
    import re
    return [('fnmatch ' + p, re.compile(fnmatch.translate(p)), None, 'ab.c#~')
            for p in ('*', '?', 'a*', '*.c', '[ab]*', '[!a]?', '.#*', '*~', '#*#')]


def conformance(tier):
    """rglob's component matcher vs fnmatch (an independent implementation of the same documented
    rules) on a corpus"""
    import fnmatch
    from vpx.models.rglob import comp_match
    pats = ['*', '?', 'a*', '*.c', '[ab]*', '[!a]?', '.#*', '*~', '#*#', '[a-c]x', '*a*b', '[!]a]b']
    agree = 0
    bad = []
    for p in pats:
        for n in range(0, 4):
            for t in itertools.product('ab.c#~[]!', repeat=n):
                s = ''.join(t)
                if comp_match(p, s) == fnmatch.fnmatchcase(s, p):
                    agree += 1
                else:
                    bad.append((p, s))
    return [('rglob.comp_match vs fnmatch.fnmatchcase', agree, 0, bad)]


def classify(ob, cex):
    """C11-F24 is the class 'symbolic link *below* a walk root': some pattern's literal prefix is
    not at or below the link.  A failure while every pattern starts at the link is a new one."""
    link = ob.params.get('link', -1)
    if ob.fn != 'w_walk' or link < 0:
        return None
    yn = ob.params.get('yname', 'b')
    skeleton = [['a'], [yn], ['a', 'a'], ['a', yn], ['a', 'a', 'a'], ['a', 'a', yn], [yn, 'a']]
    node = skeleton[link]
    for inc in ob.params.get('include', ['a/**/b', 'b/*']):
        base = []
        for b in [x for x in inc.split('/') if x]:
            if '*' in b or '?' in b or '[' in b:
                break
            base.append(b)
        if base[:len(node)] != node:
            return 'C11-F24'
    return None


def real_replay(ob, cex):
    """counterexamples of the known-finding class: the same situation on a real directory tree with
    a real symbolic link (findings/C11-F24-demo.py)"""
    if classify(ob, cex) != 'C11-F24':
        return None
    import os
    import subprocess
    demo = os.path.join(os.path.dirname(os.path.dirname(os.path.dirname(os.path.abspath(__file__)))),
                        'findings', 'C11-F24-demo.py')
    r = subprocess.run(['/venv/bin/python', demo], capture_output=True, timeout=300)
    out = r.stdout.decode(errors='replace')
    return {'reproduced': r.returncode == 1 and 'VIOLATION' in out, 'detail': out[-1200:]}

"""C12 -- path algebra laws."""
from vpx.run import Ob
from vpx.props import common

ID = 'C12'
LEVEL_TEXT = ('bounded symbolic execution (CrossHair/z3) of the real BasePath constructor and '
              'methods (PosixPath and WindowsPath, source/build/install roots) on every raw path '
              'string up to the stated length over all of Unicode, against an independent '
              'component-walk oracle and the algebraic laws of the property; commonprefix/'
              'uniquetrees on token-level path lists (exhaustive within the bound)')
LEVEL_NOTE = ('trusted: CrossHair string models (+ vpx/chplugin.py); posixpath.normpath replaced by '
              "CPython's own pure-Python fallback (the C version would concretise); os.path."
              'expanduser only exercised on strings not starting with ~; eq/hash agreement is '
              'checked over enumerated spellings of concrete names (hashing realises symbolic strings)')
HARNESS = 'vpx.harness.c12'
FUNCTIONS = ['bfg9000.platforms.basepath.BasePath.__init__', '__normalize', '__normpath', '__join',
             'abspath', 'parent', 'append', 'basename', 'split', 'splitleaf', 'ext', 'addext',
             'stripext', 'relpath', 'reroot', 'to_json', 'from_json', 'realize', 'string', '__eq__',
             'PosixPath', 'WindowsPath._localize_path', 'bfg9000.path.commonprefix',
             'bfg9000.path.uniquetrees']
OUTSIDE = ['strings longer than the bound', '~user expansion', 'absolute and drive-prefixed raw '
           'strings in the relative-path laws (covered only by the separator law)',
           'hash() of symbolic strings (the eq/hash law is checked over enumerated spellings of concrete names)', 'commonprefix of identical directory paths (raises '
           'ValueError for the root directory: observation, only called with file paths)']
STUBS = ['posixpath.normpath -> CPython pure-Python fallback', 'os.getcwd -> fixed /w/cur in a_abspath']
ASSUMPTIONS = ['HOME is not consulted: raw strings starting with ~ are excluded']
LAWS = ['n_normalised', 'n_idempotent', 's_separators', 'p_parent_append', 'x_ext', 'j_json',
        'g_string', 'a_abspath']
MUTANTS = {'n_normalised': ['path_no_escape_check'], 's_separators': ['path_no_backslash'],
           'j_json': ['path_json_no_dir'], 'r_relpath': ['relpath_no_origin_join'],
           'g_string': ['string_appends_suffix']}


def quick_tier(tier):
    return tier == 'quick'


def bounds(tier):
    return {'raw_string_length': '0..3 quick / 0..4 thorough (relpath pairs: |a| <= 2,|b| <= 2 quick; '
                                 '<= 3, <= 2 thorough)',
            'flavours': ['posix', 'windows'], 'roots': ['srcdir', 'builddir', 'prefix', 'libdir'],
            'token_paths': '3 lists of depth <= 2 over 2 names (quick) / 3 names (thorough); one name '
                           'sorts differently as a string than as a component list'}


def obligations(tier, kf):
    nmax = 3 if tier == 'quick' else 4
    obs = []
    T = {0: 60, 1: 60, 2: 120, 3: 400, 4: 1500}
    for flavor in ('posix', 'windows'):
        for fn in LAWS:
            for n in range(0, nmax + 1):
                # roots: rotate so that every root is used with every law at some length
                root = (n + LAWS.index(fn)) % 4
                p = dict(kf, N=n, flavor=flavor, root=root)
                ob = Ob(fn, p, T[n], desc='%s %s |s|==%d root#%d' % (fn, flavor, n, root))
                obs.append(ob)
                if n == 2 and flavor == 'posix':
                    obs.append(ob.twin())
                if n == 3 and flavor == 'posix':
                    for m in MUTANTS.get(fn, []):
                        obs.append(ob.mutant(m))
    for flavor in ('posix', 'windows'):
        for n in range(0, (2 if quick_tier(tier) else 3) + 1):
            obs.append(Ob('n_escaping', dict(kf, N=n, flavor=flavor, root=n % 4), 900,
                          desc='n_escaping %s, tail |t|==%d' % (flavor, n)))
    ne = Ob('n_escaping', dict(kf, N=1, flavor='posix', root=0), 300)
    obs += [ne.twin(), ne.mutant('path_escape_check_basename_only')]
    for base in (0, 1, 2):
        for n in range(0, nmax + 1):
            ob = Ob('b_base_path', dict(kf, N=n, flavor='posix', root=n % 4, base=base), T[n],
                    desc='Path relative to Path base #%d, |s|==%d' % (base, n))
            obs.append(ob)
            if n == 2 and base == 0:
                obs.append(ob.twin())
            if n == 3 and base == 0:
                obs.append(ob.mutant('path_no_backslash'))
    pairs = [(1, 1), (2, 1), (1, 2), (2, 2)] if tier == 'quick' else \
        [(1, 1), (2, 1), (1, 2), (2, 2), (3, 1), (3, 2)]
    for (n, m) in pairs:
        ob = Ob('r_relpath', dict(kf, N=n, M=m, flavor='posix', root=1), 900,
                desc='relpath |a|==%d |b|==%d' % (n, m))
        obs.append(ob)
        if (n, m) == (2, 2):
            obs.append(ob.twin())
            for mu in MUTANTS['r_relpath']:
                obs.append(ob.mutant(mu))
    hh = Ob('h_eq_hash', {}, 900, desc='eq/hash over enumerated spellings and derivations')
    obs += [hh, hh.twin(), hh.mutant('path_hash_includes_directory')]
    nn = 2 if tier == 'quick' else 3
    for fn in ('c_commonprefix', 't_uniquetrees'):
        ob = Ob(fn, {'M': 2, 'K': 3, 'NN': nn}, 900,
                desc='%s, 3 token paths of depth <= 2 over %d names' % (fn, nn))
        obs.append(ob)
        obs.append(ob.twin())
    obs.append(Ob('c_commonprefix', {'M': 2, 'K': 3, 'NN': 2, 'mutant': 'commonprefix_minmax'}, 300,
                  role='mutant'))
    obs.append(Ob('t_uniquetrees', {'M': 2, 'K': 3, 'NN': 2, 'mutant': 'uniquetrees_string_sort'},
                  300, role='mutant'))
    return obs


def classify(ob, cex):
    a = cex['args']
    for s in a:
        if isinstance(s, str):
            t = s.replace('\\', '/')
            while t.startswith('./'):
                t = t[2:]
            if t.startswith('~'):
                return 'C12-F13'
            if ob.fn == 'p_parent_append' and '/' in t.rstrip('/') and \
                    t.rstrip('/').rsplit('/', 1)[1][1:2] == ':':
                return 'C12-F20'
            if t[1:2] == ':' or '/../' in t or t.endswith('/..'):
                try:
                    from bfg9000.path import Path
                    if Path(s).suffix[1:2] == ':':
                        return 'C12-F6'
                except ValueError:
                    pass
    return None


def regex_selftest():
    return []

"""C02 -- Ninja backend: every argument reaches the spawned process unchanged."""
import io

from vpx import conformance as cf
from vpx import e2 as E2
from vpx.models import rsh, rninja
from vpx.props import common
from vpx.run import Ob

ID = 'C02'
LEVEL_TEXT = 'bounded symbolic execution (CrossHair/z3) of the real Ninja writer and sh quoting code for every string up to the stated length over all of Unicode, in 12 argument positions, decoded by a reference Ninja evaluator and an sh model'
LEVEL_NOTE = "trusted: rninja reference evaluator (no ninja binary available to validate it), CrossHair's string/regex models (+ vpx/chplugin.py); rsh validated against /bin/sh per run; bounded: string length, one symbolic argument per line"
HARNESS = 'vpx.harness.c02'
FUNCTIONS = [
    'bfg9000.backends.ninja.syntax.Writer.write', 'Writer.write_shell', 'Writer.write_each',
    'Writer.escape_str', 'NinjaFile._write_variable', 'Variable.use',
    'bfg9000.shell.posix.inner_quote_info', 'posix.wrap_quotes', 'posix.quote_info',
    'posix.listify', 'posix.global_env', 'posix.local_env', 'posix.join_lines',
    'bfg9000.builtins.tests._build_commands', 'bfg9000.path.BasePath.realize',
    'bfg9000.backends.ninja.writer.write (section order)', 'bfg9000.builtins.install._add_install_paths/ninja_install_rule',
]
OUTSIDE = ['strings longer than the stated bound', 'NUL/CR/LF', 'string-form commands',
           'Windows (cmd.exe) flavour of the Ninja backend (see C20)',
           'more than one symbolic argument per command line (the two whole-manifest obligations have none / one)']
ASSUMPTIONS = [
    'rninja (Ninja lexer/evaluator/scoping and $in/$out shell escaping) is a TRUSTED reference '
    'model written from the manual and lexer.in.cc: there is no ninja binary in the sandbox to '
    'validate it against; counterexamples are replayed through the reference evaluator and the real '
    '/bin/sh',
    'rsh (POSIX sh word parsing) is validated against /bin/sh on a systematic corpus in every run',
    'CrossHair 0.0.110 string/regex models with the re.sub fix of vpx/chplugin.py',
]
POSITIONS = ['a_rule_arg', 'b_command_word', 'c_build_variable', 'c_global_variable',
             'd_command_build', 'e_global_env', 'f_local_env', 'g_nested_driver',
             'h_option_string', 'k_path_arg', 'k_include_dir', 'l_in_out']
MIN = {'b_command_word': 1, 'k_path_arg': 1, 'k_include_dir': 1, 'l_in_out': 1}
MUTANTS = {'a_rule_arg': ['posix_quote_safe', 'ninja_no_dollar'],
           'c_build_variable': ['ninja_no_dollar'], 'l_in_out': ['ninja_path_no_colon']}
ALPHA = "a'\\ #$:|&=~*"


def bounds(tier):
    return {'string_length': '0..2 quick (+3 for position a), 0..3 thorough (4 for a,b,c_build,e,f)',
            'alphabet': 'all Unicode code points except NUL, CR, LF',
            'symbolic_arguments_per_line': 1}


def obligations(tier, kf):
    if tier == 'quick':
        nmax = {p: 2 for p in POSITIONS}
        nmax['a_rule_arg'] = 3
    else:
        nmax = {p: 3 for p in POSITIONS}
        for p in ('a_rule_arg', 'b_command_word', 'c_build_variable', 'e_global_env',
                  'f_local_env'):
            nmax[p] = 4
    obs = common.string_obligations(POSITIONS, nmax, kf, MUTANTS, MIN)
    # whole-manifest evaluation: Ninja expands file-level bindings when it *reads* them, so a
    # variable must be written before the bindings that use it (harnesses shared with C06 / C15)
    w = Ob('w_whole_file', {}, 900, module='vpx.harness.c06',
           desc='complete build.ninja from the real writer: global include dir / option reach the compiler')
    obs += [w, w.twin(), w.mutant('ninja_srcdir_after_flags')]
    ni = Ob('n_install_ninja', {'N': 1, 'kind': 2, 'which': 'pfx', 'dirs_reversed': True,
                                'kf_quote': True}, 900, module='vpx.harness.c15',
            desc='install command with the install-directory mapping in reverse insertion order '
                 '(symbolic prefix component; a quote in it is C15-F16)')
    obs += [ni, ni.twin(), ni.mutant('install_paths_in_mapping_order')]
    return obs


def conformance(tier):
    from bfg9000.shell import posix as pshell
    k = 2 if tier == 'quick' else 3
    raw = list(cf.strings(ALPHA, k))
    lines = ['prog ' + s for s in raw] + ['prog ' + pshell.quote(s) for s in raw] + \
            ['V=' + pshell.quote(s) + ' prog' for s in raw] + \
            ['prog ' + rninja.shell_escape(s) for s in raw]
    ws = list(cf.strings('V=:~a', 4, 1))
    lines += ['prog ' + w for w in ws] + [w + ' prog' for w in ws] + \
             ['export ' + w + ' && prog' for w in ws]
    a, u, bad = cf.check_rsh(lines)
    return [('rsh vs /bin/sh (incl. ninja $in/$out escaping)', a, u, bad)]


def e2(tier):
    import z3
    from bfg9000.shell import posix as pshell
    bad = E2.class_pred(pshell._bad_chars.pattern)
    sh_special = rsh.HARD + "'\\ \t&#~!{}"
    return [E2.query('every code point rsh treats as special when unquoted, and ninja\'s "$", '
                     'is forced into quotes by posix._bad_chars (all Unicode)',
                     lambda c: [E2.in_set(c, sh_special + '$'), z3.Not(bad(c))])]


def real_replay(ob, cex):
    """No ninja binary: the counterexample is written by the real NinjaFile class into a complete
    manifest, the command is computed by the reference evaluator and executed by the real /bin/sh
    with a recorder stub."""
    from bfg9000.backends.ninja.syntax import NinjaFile
    from bfg9000.shell import posix as pshell
    s = cex['args'][0]
    fn = ob.fn
    if fn not in POSITIONS:
        return None      # whole-manifest obligations: the harness body already runs the real writer
    nf = NinjaFile('build.bfg')
    exp_env = {'V': '', 'W': ''}
    if fn == 'a_rule_arg':
        nf.rule('r', ['prog', s]); exp = ['prog', s]
    elif fn == 'b_command_word':
        nf.rule('r', [s, 'x']); exp = [s, 'x']
    elif fn == 'h_option_string':
        try:
            parts = pshell.listify(s)
        except ValueError:
            return None
        nf.rule('r', ['prog'] + parts); exp = ['prog'] + parts
    else:
        return None
    nf.build('out', 'r')
    out = io.StringIO()
    nf.write(out)
    cmd = None
    for line in out.getvalue().split('\n'):
        if line.startswith('  command = '):
            cmd = rninja.value(line[len('  command = '):])
    if cmd is None:
        return {'reproduced': True, 'detail': 'reference ninja evaluator rejects the manifest'}
    stub = exp[0]
    if '/' in stub or stub in ('', '.', '..') or stub in cf.SH_BUILTINS:
        return None
    with cf.Scratch() as sc:
        real = cf.real_sh(cmd, sc.dir, 0, stub)
    ok = real[0] not in ('error', 'skip') and real[1] == exp
    if real[0] == 'skip':
        return None
    return {'reproduced': not ok, 'detail': {'command': cmd, 'expected': exp, 'real_sh': real}}


def classify(ob, cex):
    s = cex['args'][0]
    if not isinstance(s, str) or ob.fn not in POSITIONS:
        return None
    k = s.find('=')
    if ob.fn == 'b_command_word' and k > 0 and rsh._is_name(s[:k]):
        return 'C02-F12'
    return None


def concrete_crosscheck(tier, kf):
    def adm(h, fn, s):
        if fn in MIN and len(s) < 1:
            return False
        if fn == 'b_command_word' and kf.get('kf_cmdassign') and h._assign_like(s):
            return False
        if fn[0] in 'kl' and not h._path_ok(s):
            return False
        if fn == 'l_in_out' and '|' in s:
            return False
        return True
    return common.concrete_crosscheck(HARNESS, POSITIONS, ALPHA, 2, adm)


def regex_selftest():
    import re
    from bfg9000.shell import posix as pshell
    return [('ninja path escape', re.compile(r'([:$ ])'), r'$\1', 'a:$ |'),
            ('posix _bad_chars', pshell._bad_chars, None, "a' -=")]

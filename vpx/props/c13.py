"""C13 -- build files are a deterministic function of project and configuration (two kernels)."""
from vpx.run import Ob

ID = 'C13'
LEVEL_TEXT = ('bounded symbolic execution (CrossHair/z3) of (a) BasePath.abspath and the argparse '
              'Directory type under a stubbed os.getcwd returning an arbitrary directory name, for '
              'seven spellings (b, ./b, x/../b, b/, b/., absolute, ../cwd/b) of an arbitrary '
              'directory name: all denote the same absolute directory; (b) iteration order as an '
              'adversarial schedule: write_depfile (.bfg_find_deps, both flavours) under every pair of '
              'orders of the find_dirs set gives the same dependency set and the same set of rule '
              'lines, and EnvVarDict.changes does not depend on key order; (b\') the kernels whose '
              '*ordered* result reaches a primary build file (install map and recipe lines, order-only '
              'directory prerequisites, uniques, option_list, ForwardOptions.recurse, '
              'PkgConfigInfo.finalize, Requirement(Set).split -- with the iteration order of verspec\'s '
              'frozenset-backed specifier sets also under the schedule) are re-compiled '
              'from their live source with every set display / comprehension / set() call replaced '
              'by a set whose iteration order the harness controls, and must give the same ordered '
              'output under both schedules')
LEVEL_NOTE = ('low-strength claim, stated as such: hash seeds, pid, time and unrelated environment '
              'variables are not inputs of any function; reading the code shows that find_dirs is the '
              'only set whose iteration order reaches a written (auxiliary) file, and that the MSBuild '
              'solution iterates a set of configurations (not one of the primary build files of this '
              'property); whole-program byte comparison across PYTHONHASHSEED values is outside this '
              'technique as a deciding step; it is used as the replay: a counterexample of (b\') is '
              're-run on the unmodified code in fresh interpreters under 12 real PYTHONHASHSEED values')
HARNESS = 'vpx.harness.c13'
FUNCTIONS = ['bfg9000.builtins.install.InstallOutputs.add/_add_implicit', 'install._install_files/_uninstall_files',
             'bfg9000.backends.make.writer.directory_deps/multitarget_rule', 'iterutils.uniques',
             'options.ForwardOptions.recurse', 'options.option_list.append/collect', 'BasePath.abspath', 'bfg9000.arguments.parser.Directory._abspath',
             'bfg9000.builtins.find.write_depfile', 'EnvVarDict.from_json/changes']
OUTSIDE = ['byte comparison of complete build files across hash seeds', 'set literals / '
           'comprehensions elsewhere in the code (none reaches a primary output by inspection)',
           'pid, time, unrelated environment variables (not inputs of any function)']
STUBS = ['AdvSet (vpx/advset.py): insertion-ordered set, reversed under the second schedule; two schedules, not all permutations', 'os.getcwd -> arbitrary "/<name>"', 'open() in find.py -> in-memory file']
ASSUMPTIONS = []
EXHAUSTIVE = True


def bounds(tier):
    q = tier == 'quick'
    return {'directory_name_length': '1..%d (all Unicode)' % (2 if q else 3),
            'cwd_name_length': '1..%d' % (1 if q else 2), 'find_dirs': '3 directories, all 36 pairs '
            'of orders, makeify on/off'}


def obligations(tier, kf):
    q = tier == 'quick'
    obs = []
    for n in range(1, (2 if q else 3) + 1):
        for m in range(1, (1 if q else 2) + 1):
            obs.append(Ob('a_spelling', {'N': n, 'M': m}, 1500, desc='|b|==%d |cwd|==%d' % (n, m)))
    obs.append(Ob('a_spelling', {'N': 1, 'M': 1}, 120).twin())
    obs.append(Ob('a_spelling', {'N': 1, 'M': 1}, 300).mutant('abspath_ignores_cwd_for_dot'))
    s = Ob('s_find_deps', {}, 600, desc='find_dirs order pairs')
    c = Ob('c_changes_order', {}, 300, desc='changes vs key order')
    obs += [s, s.twin(), s.mutant('depfile_first_dir_only_as_target'), c, c.twin()]
    o = Ob('o_set_order', {}, 600, desc='ordered kernels under two schedules of their sets')
    obs += [o, o.twin(), o.mutant('install_deps_via_set'), o.mutant('directory_deps_via_set'),
            o.mutant('requirement_split_hash_order'), o.mutant('pc_forwarded_libs_through_set')]
    return obs


def real_replay(ob, cex):
    """o_set_order: the same kernels on the unmodified code in fresh interpreters under different
    real hash seeds; reproduced iff some ordered result differs between two seeds"""
    if ob.fn != 'o_set_order':
        return None
    import json
    import os
    import subprocess
    import sys
    n = cex['args'][1]
    outs = {}
    for seed in range(12):
        env = dict(os.environ, PYTHONHASHSEED=str(seed))
        r = subprocess.run([sys.executable, '-m', 'vpx.harness.c13_seed', str(n)], env=env,
                           capture_output=True, timeout=120)
        if r.returncode != 0:
            return {'reproduced': False, 'detail': 'seed run failed: ' + r.stderr.decode()[-300:]}
        outs[seed] = json.loads(r.stdout.decode())
    keys = sorted(outs[0])
    differing = {k: sorted({json.dumps(outs[s][k]) for s in outs}) for k in keys}
    differing = {k: v for k, v in differing.items() if len(v) > 1}
    return {'reproduced': bool(differing), 'detail': {'hash_seeds': 12, 'differing': differing}}

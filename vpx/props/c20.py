"""C20 -- Windows command lines (MS C runtime rules) and MSBuild solution GUIDs."""
from vpx.run import Ob
from vpx.props import common

ID = 'C20'
LEVEL_TEXT = ('bounded symbolic execution (CrossHair/z3) of windows.quote/inner_quote_info/'
              'wrap_quotes/join/split, the `cmd /s /c` wrapping of the Ninja writer and jbos '
              'arguments for every string up to the stated length over all of Unicode, decoded by a '
              'reference model of the Microsoft C runtime argv parser and by the repository\'s own '
              'split (which is itself compared with that model on every text up to 3 (5) characters '
              'between two fixed words); UuidMap persistence over every history of 2-3 configure runs with solver-chosen '
              'project subsets, and Solution.dependencies/write over every dependency shape of three '
              'projects (exhaustive within the bound)')
LEVEL_NOTE = ('trusted: rmsvcrt (MS C runtime parse_cmdline rules, no Windows in the sandbox to '
              'validate against; cross-checked against the repo\'s own windows.split), rninja; '
              'uuid.uuid4 replaced by a fresh-value generator (assumption: fresh GUIDs are distinct); '
              'the .bfg_uuid file is an in-memory stub under the real _load/save; project names are '
              'distinct (duplicate targets are rejected by the other backends)')
HARNESS = 'vpx.harness.c20'
FUNCTIONS = ['bfg9000.shell.windows.inner_quote_info', 'windows.wrap_quotes', 'windows.quote_info',
             'windows.quote', 'windows.join', 'windows._tokenize', 'windows.split',
             'windows.join_lines', 'windows.escape_line',
             'bfg9000.backends.ninja.syntax.Writer.write_shell (can_wrap)',
             'bfg9000.backends.msbuild.solution.UuidMap.__getitem__', 'UuidMap._load',
             'UuidMap.save', 'Solution.__setitem__', 'Solution.dependencies', 'Solution.write', 'Solution.set_default', 'bfg9000.builtins.default.msbuild_default',
             'bfg9000.backends.msbuild.syntax.Project.set_uuid']
OUTSIDE = ['cmd.exe metacharacters ^ and % (documented as not escaped)', 'the program-name word of '
           'a command line (argv[0] is parsed by different rules)', 'strings longer than the bound',
           'vcxproj XML content', 'more than three projects / three runs']
STUBS = ['uuid.uuid4 -> counter-based fresh UUIDs', 'open() inside solution.py -> in-memory file',
         'platform_info() inside ninja/syntax.py -> family windows (w_cmd_wrap only)']
ASSUMPTIONS = ['fresh GUIDs are distinct', 'project names are distinct']
MUTANTS = {'q_quote': ['win_no_backslash_doubling', 'win_tab_safe'],
           'u_uuid_history': ['uuid_save_all'], 'w_cmd_wrap': ['win_no_backslash_doubling']}


def bounds(tier):
    return {'string_length': 'quote / cmd-wrap: 0..3 quick, 0..4 thorough; join and jbos pairs: '
                             '(1,1) quick, up to (2,2) thorough',
            'alphabet': 'all Unicode except NUL, CR, LF',
            'uuid_histories': '2 runs quick (2^6), 3 runs thorough (2^9), 3 project names',
            'solution_shapes': '2^6 (3 dependency edges, 2 source-file deps, project 2 present or not)'}


def obligations(tier, kf):
    quick = tier == 'quick'
    obs = []
    T = {0: 60, 1: 60, 2: 200, 3: 900, 4: 3000}
    for fn in ('q_quote', 'w_cmd_wrap'):
        for n in range(0, (3 if quick else 4) + 1):
            ob = Ob(fn, {'N': n}, T[n], desc='%s |s|==%d' % (fn, n))
            obs.append(ob)
            if n == 1:
                obs.append(ob.twin())
            if n == 2:
                for m in MUTANTS.get(fn, []):
                    obs.append(ob.mutant(m))
    for n in range(0, (3 if quick else 5) + 1):
        for suf in (' z', 'z z'):
            obs.append(Ob('x_split_vs_runtime', {'N': n, 'SUF': suf},
                          {0: 60, 1: 60, 2: 120, 3: 300, 4: 1200, 5: 4000}[n],
                          desc='split vs MS runtime, |t|==%d, followed by %r' % (n, suf)))
    obs.append(Ob('x_split_vs_runtime', {'N': 2, 'SUF': ' z'}, 120).twin())
    obs.append(Ob('x_split_vs_runtime', {'N': 3, 'SUF': 'z z'}, 300).mutant('win_split_quote_ends_arg'))
    pairs = [(0, 0), (1, 0), (0, 1), (1, 1)] + ([] if quick else [(2, 1), (1, 2), (2, 2)])
    for fn in ('j_join', 'p_jbos'):
        for n, m in pairs:
            ob = Ob(fn, {'N': n, 'M': m}, 600 if n + m < 4 else 4000,
                    desc='%s |a|==%d |b|==%d' % (fn, n, m))
            obs.append(ob)
            if (n, m) == (1, 1):
                obs.append(ob.twin())
    u = Ob('u_uuid_history', {'RUNS': 2 if quick else 3}, 900, desc='UuidMap histories')
    obs += [u, u.twin(), Ob('u_uuid_history', {'RUNS': 2}, 300).mutant('uuid_save_all'),
            Ob('u_uuid_history', {'RUNS': 2}, 300).mutant('uuid_forget_load')]
    md = Ob('m_default_project', {}, 600, desc='default-project hook over explicit/fallback shapes')
    obs += [md, md.twin(), md.mutant('msbuild_default_moves_all')]
    d = Ob('d_solution', {}, 600, desc='Solution dependency shapes')
    obs += [d, d.twin(), d.mutant('sln_dep_wrong_uuid')]
    return obs


def regex_selftest():
    from bfg9000.shell import windows as w
    bs = chr(92)

    def repl(m):
        quote = bs + m.group(2) if len(m.group(2)) else ''
        return m.group(1) * 2 + quote
    return [('windows _replace', w._replace, repl, 'a"' + bs + ' '),
            ('windows _bad_chars', w._bad_chars, None, 'a" &' + bs + '\t')]


def concrete_crosscheck(tier, kf):
    import importlib, os
    os.environ['VPX_PARAMS'] = '{}'
    h = importlib.import_module(HARNESS)
    from vpx import conformance as cf
    n = 0
    fails = []
    for s in cf.strings('a" \\\t&^', 3):
        h.N = len(s)
        n += 1
        if not h.q_quote(s):
            fails.append(('q_quote', (s,)))
    return n, fails

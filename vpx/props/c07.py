"""C07 -- incremental builds / header changes: the depfile kernel (depfixer)."""
import io
import os
import subprocess

from vpx.run import Ob
from vpx import conformance as cf
from vpx.models import rdep

ID = 'C07'
LEVEL_TEXT = ('bounded symbolic execution (CrossHair/z3) of depfixer.tokenize/emit_deps on every '
              'depfile text up to the stated length (all of Unicode plus newline, after fixed '
              'prefixes that put the state machine in each of its states) against an independent '
              'reader of the depfile grammar: the appended text is exactly one prerequisite-free rule '
              'per dependency, spelled verbatim; well-formed input is never rejected; the grammar and '
              'the deleted-header consequence are validated with the real gcc and make per run; and of '
              'the `-include <depfile>` line the real Makefile writer emits for every object (names up '
              'to 2 (3) characters): Make reads exactly the depfile the compiler wrote')
LEVEL_NOTE = ('claimed for the depfile kernel and the include line only: which objects the real compiler rebuilds after an '
              'edit history, program output and clean are decided by gcc+make runs, not by a solver; '
              'rdep (depfile grammar) is a reference model validated against depfiles written by the '
              'real gcc 12; header names containing % : ; = | (or ending in & or a blank) cannot be '
              'represented in a gcc depfile read by GNU Make at all and are excluded')
HARNESS = 'vpx.harness.c07'
FUNCTIONS = ['bfg9000.depfixer.tokenize', 'bfg9000.depfixer.emit_deps', 'bfg9000.backends.make.syntax.Makefile.include/_write (include lines)']
OUTSIDE = ['actual rebuild sets after edit histories', 'texts longer than the bound',
           'depfile flavours other than gcc/clang -MMD (msvc /showIncludes is handled by ninja)',
           'double-colon rules', 'a backslash-newline glued to a word without a blank']
STUBS = []
ASSUMPTIONS = ['the compiler writes depfiles in the grammar of vpx/models/rdep.py (validated against '
               'the installed gcc for header names containing each printable ASCII character)']
PREFIXES = ['', 'a.o: b', 'a.o: b \\\n ', 'a.o:', 'a b']


def bounds(tier):
    return {'text_length': 'free suffix of 0..4 (quick) / 0..5 (thorough) characters after each of the '
                           'prefixes %r' % PREFIXES,
            'alphabet': 'all Unicode code points and LF (NUL, CR excluded)'}


def obligations(tier, kf):
    nmax = 4 if tier == 'quick' else 5
    obs = []
    T = {0: 60, 1: 60, 2: 120, 3: 300, 4: 900, 5: 3000}
    for fn in ('d_extract', 'd_idempotent_shape'):
        for pi, pre in enumerate(PREFIXES):
            if fn == 'd_idempotent_shape' and pi not in (0, 1):
                continue
            for n in range(0, nmax + 1):
                if pre == '' and n == 0:
                    continue
                ob = Ob(fn, {'N': n, 'prefix': pre}, T[n],
                        desc='%s, prefix %r + %d symbolic chars' % (fn, pre, n))
                obs.append(ob)
                if n == 2 and pi == 1:
                    obs.append(ob.twin())
                if n == 3 and pi == 1 and fn == 'd_extract':
                    for m in ('depfixer_drop_escape', 'depfixer_no_final_newline_rule',
                              'depfixer_colon_anywhere'):
                        obs.append(ob.mutant(m))
    # the depfile is only of use if Make reads it: the `-include <depfile>` line written for every
    # object (the position is shared with C04, harness vpx.harness.c04.mi_include)
    for n in (1, 2) if tier == 'quick' else (1, 2, 3):
        obs.append(Ob('mi_include', dict(kf, N=n, shape=0, rooti=0, excl_src=';='), {1: 400, 2: 900, 3: 3000}[n],
                      module='vpx.harness.c04', desc='-include line of the depfile, object d/<c>.o.d, |c|==%d' % n))
    inc = Ob('mi_include', dict(kf, N=1, shape=0, rooti=0, excl_src=';='), 400, module='vpx.harness.c04')
    obs += [inc.twin(), inc.mutant('make_include_double_escape')]
    return obs


def _gcc_depfile(sc, header):
    d = sc.path('w')
    os.makedirs(d, exist_ok=True)
    with open(os.path.join(d, header), 'w') as f:
        f.write('#define X 1\n')
    inc = header.replace('\\', '\\\\').replace('"', '\\"')
    with open(os.path.join(d, 'a.c'), 'w') as f:
        f.write('#include "%s"\nint v = X;\n' % inc)
    r = subprocess.run(['gcc', '-c', 'a.c', '-MMD', '-MF', 'a.o.d', '-o', 'a.o'], cwd=d,
                       capture_output=True)
    if r.returncode:
        return None, d
    with open(os.path.join(d, 'a.o.d')) as f:
        return f.read(), d


UNREPRESENTABLE = set('%:;=|')


def conformance(tier):
    """(1) depfiles written by the real gcc for headers whose names contain each printable ASCII
    character parse under rdep to [a.c, escaped(header)]; (2) for representable names: after
    appending depfixer's output (real emit_deps) and deleting the header, real make still builds."""
    from bfg9000 import depfixer
    import shutil
    agree = skipped = 0
    bad = []
    agree2 = skipped2 = 0
    bad2 = []
    chars = [chr(i) for i in range(32, 127) if chr(i) not in '/\\"']
    with cf.Scratch() as sc:
        for c in chars:
            for name in ('h' + c + 'x.h', c + 'x.h'):
                if name[0] in ' ' or name in ('.x.h',):
                    pass
                shutil.rmtree(sc.path('w'), ignore_errors=True)
                dep, d = _gcc_depfile(sc, name)
                if dep is None:
                    skipped += 1
                    continue
                esc = name.replace('$', '$$').replace('#', '\\#').replace(' ', '\\ ')
                got = rdep.deps(dep)
                if c == ':' and got is None:
                    skipped += 1       # gcc does not escape ':'; 'x:x.h' style names are outside
                    continue
                if got == ['a.c', esc]:
                    agree += 1
                else:
                    bad.append((name, dep, got))
                    continue
                if c in UNREPRESENTABLE or (c == '~' and name[0] == '~'):
                    skipped2 += 1
                    continue
                out = io.StringIO()
                try:
                    depfixer.emit_deps(io.StringIO(dep), out)
                except depfixer.ParseError as e:
                    bad2.append((name, 'ParseError %s' % e))
                    continue
                with open(os.path.join(d, 'Makefile'), 'w') as f:
                    f.write('a.o: a.c\n\t@touch a.o\n-include a.o.d\n')
                with open(os.path.join(d, 'a.o.d'), 'a') as f:
                    f.write(out.getvalue())
                os.remove(os.path.join(d, name))
                with open(os.path.join(d, 'a.c'), 'w') as f:
                    f.write('int v;\n')
                r = subprocess.run(['make', '-s', 'a.o'], cwd=d, capture_output=True)
                if r.returncode == 0:
                    agree2 += 1
                else:
                    bad2.append((name, r.stderr.decode()[:120]))
    return [('rdep grammar vs depfiles written by real gcc', agree, skipped, bad),
            ('deleted header does not stop real make after real emit_deps', agree2, skipped2, bad2)]


def classify(ob, cex):
    c = cex['args'][0]
    if ob.fn == 'mi_include' and isinstance(c, str) and (':' in c or '%' in c):
        return 'C07-F15'
    return None

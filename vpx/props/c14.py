"""C14 -- linked binaries: forwarding closure/order and relative run-time search paths."""
from vpx.run import Ob

ID = 'C14'
LEVEL_TEXT = ('bounded symbolic execution (CrossHair/z3) of ForwardOptions.recurse, the library '
              'list construction of the real Link.__init__, DynamicLink._fill_options and option_list '
              'de-duplication over every DAG of up to 4 static libraries (adjacency booleans) and '
              'every user library list of 1-2 entries: closure, dependants-before-dependencies order, '
              'forwarded link options (single- and multi-word) intact; and of patchelf.local_rpath / BasePath.relpath($ORIGIN) for '
              'symbolic output and library directories')
LEVEL_NOTE = ('the real Link.__init__ is run on a stand-in `self` up to the point where the library '
              'list exists (it stops at "need at least one source file"); linkers/compilers are not '
              'involved; that ld resolves symbols in one pass and that the ELF loader honours '
              '$ORIGIN is assumed (the order defect was replayed with the real gcc/ld during design); '
              'shared / dual-use / whole-archive mixes and actually moving the build directory are '
              'outside')
HARNESS = 'vpx.harness.c14'
FUNCTIONS = ['bfg9000.options.ForwardOptions.recurse', 'ForwardOptions.update',
             'bfg9000.options.option_list.append/collect', 'bfg9000.builtins.link.Link.__init__ '
             '(library list)', 'DynamicLink._fill_options', 'bfg9000.tools.patchelf.local_rpath',
             'BasePath.relpath', 'BasePath.parent', 'BasePath.cross']
OUTSIDE = ['more than 4 libraries / user lists longer than 2', 'shared, dual-use and whole-archive '
           'libraries in the forwarding DAG', 'behaviour of ld and the ELF loader', 'moving the '
           'build directory', 'directory names longer than the bound in the rpath law']
STUBS = ['Link `self` stand-in (vpx/harness/c14.py _FakeLink): provides _prefix, linker.needs_libs, '
         '_get_linkers() -> []', 'env.target_platform.Path -> host Path']
ASSUMPTIONS = ['single-pass static linking needs every library before the libraries it depends on']
EXHAUSTIVE = True


def bounds(tier):
    return {'libraries': '3 and 4 nodes, every acyclic adjacency (edges from lower to higher index), '
                         'user list of 1-2 distinct libraries in every order',
            'rpath_directories': 'symbolic normalised directory strings |A| <= %d, |B| <= %d' %
                                 ((3, 2) if tier == 'quick' else (4, 3))}


def obligations(tier, kf):
    q = tier == 'quick'
    obs = [Ob('l_order', dict(kf, NLIBS=3), 600, desc='3 libraries, all DAGs')]
    for u0 in range(4):
        obs.append(Ob('l_order', dict(kf, NLIBS=4, U0=u0), 1500,
                      desc='4 libraries, all DAGs, user list starting with lib%d' % u0))
    obs.append(Ob('l_order', dict(kf, NLIBS=3), 120).twin())
    obs.append(Ob('l_order', dict(kf, NLIBS=4, U0=0), 900).mutant('link_libs_keep_first'))
    obs.append(Ob('l_order', dict(kf, NLIBS=3), 600).mutant('forward_recurse_shallow'))
    obs.append(Ob('l_order', dict(kf, NLIBS=3), 600).mutant('fill_options_dedup_forwarded'))
    fs = Ob('f_static_forward', {}, 600, desc='what a static library forwards: 1-3 static / shared libraries')
    obs += [fs, fs.twin(), fs.mutant('static_forwards_static_only')]
    n, m = (3, 2) if q else (4, 3)
    for a in range(1, n + 1):
        for b in range(1, m + 1):
            obs.append(Ob('r_rpath_exact', {'N': a, 'M': b}, 1500,
                          desc='rpath |A|==%d |B|==%d' % (a, b)))
    obs.append(Ob('r_rpath_exact', {'N': 2, 'M': 2}, 120).twin())
    obs.append(Ob('r_rpath_exact', {'N': 3, 'M': 1}, 300).mutant('rpath_absolute'))
    return obs

"""Shared helpers for property modules whose obligations are 'one symbolic string per position'."""
import importlib
import os

from vpx.run import Ob
from vpx import conformance as cf

TIMEOUTS = {0: 60, 1: 60, 2: 240, 3: 900, 4: 3000, 5: 6000}


def string_obligations(positions, nmax, kf, mutants=None, min_len=None, skip=None,
                       twin_len=1, mutant_len=2, timeouts=None, extra=None):
    """One obligation per position and exact length 0..nmax; a reachability twin at twin_len, the
    sensitivity twins at mutant_len.  min_len: {fn: smallest admissible length};
    skip: set of (fn, n) not attempted (stated in the bounds)."""
    timeouts = timeouts or TIMEOUTS
    obs = []
    for fn in positions:
        lo = (min_len or {}).get(fn, 0)
        nm = nmax[fn] if isinstance(nmax, dict) else nmax
        for n in range(lo, nm + 1):
            if skip and (fn, n) in skip:
                continue
            p = {'N': n}
            p.update(kf)
            p.update(extra or {})
            ob = Ob(fn, p, timeouts[n], desc='%s, |s| == %d' % (fn, n))
            obs.append(ob)
            if n == max(twin_len, lo):
                obs.append(ob.twin())
            if n == mutant_len:
                for m in (mutants or {}).get(fn, []):
                    obs.append(ob.mutant(m))
    return obs


def concrete_crosscheck(harness, positions, alphabet, maxlen, admissible, params=None):
    """Run harness bodies concretely (untraced) on every string up to maxlen over the interesting
    alphabet.  admissible(h, fn, s) mirrors the harness preconditions."""
    import json
    os.environ['VPX_PARAMS'] = json.dumps(params or {})
    h = importlib.import_module(harness)
    n = 0
    fails = []
    for fn in positions:
        f = getattr(h, fn)
        for s in cf.strings(alphabet, maxlen):
            if not admissible(h, fn, s):
                continue
            h.N = len(s)
            n += 1
            try:
                ok = f(s)
            except Exception:   # noqa
                ok = False
            if not ok:
                fails.append((fn, (s,)))
    return n, fails

"""C05 -- distinct inputs never collide; implicit outputs stay in the build directory."""
from vpx.run import Ob
from vpx.props import common

ID = 'C05'
LEVEL_TEXT = ('bounded symbolic execution (CrossHair/z3) of within_directory, the default object '
              'naming chain and the Path operations they use, for every normalised source suffix '
              'up to the stated length over all of Unicode and three intermediate-directory shapes; '
              'injectivity is decided through an explicit inverse (decode(output) == source)')
LEVEL_NOTE = ('trusted: CrossHair string/regex models (+ vpx/chplugin.py, pure-Python normpath); the '
              'Path representation invariant is assumed for suffixes built directly (C12 establishes '
              'it); duplicate-rule rejection in Makefile.rule/NinjaFile.build rests on injectivity of '
              'target escaping (C04); the duplicate-rule obligations enumerate rule shapes over three '
              'concrete names (string and Path spellings) rather than symbolic names')
HARNESS = 'vpx.harness.c05'
FUNCTIONS = ['bfg9000.builtins.path.within_directory', 'BasePath.relpath', 'BasePath.append',
             'BasePath.parent', 'BasePath.stripext', 'BasePath.reroot', 'BasePath.__init__',
             'bfg9000.tools.cc.compiler.CcCompiler.default_name', 'CcCompiler.output_file', 'bfg9000.backends.make.syntax.Makefile.rule', 'Makefile._target_str',
             'bfg9000.backends.ninja.syntax.NinjaFile.build', 'NinjaFile._output_str']
OUTSIDE = ['suffixes longer than the bound', 'running configure/clean/dist and observing the '
           'source directory', 'the literal component PAR (excluded by the property)',
           '~user lookups (leading ~ of a raw user string)', 'Windows drive-letter paths',
           'symbolic exploration of the duplicate-target sets (hashing realises strings)']
STUBS = ['posixpath.normpath -> CPython pure-Python fallback', 'CcCompiler bound to a stub builder '
         '(object_format elf, lang c): default_name/output_file are the real methods']
ASSUMPTIONS = ['Path suffix representation invariant (normalised, no drive) for directly built paths']
POSITIONS = ['w_contain', 'w_inverse', 'o_objname', 'o_objname_dir', 'u_user_path']
SHAPES = ['r_dup_make', 'r_dup_ninja']
MUTANTS = {'w_inverse': ['within_dir_unescaped_dots'], 'w_contain': ['within_dir_no_par'],
           'u_user_path': ['within_dir_unescaped_dots']}


def bounds(tier):
    return {'suffix_length': '1..4 quick / 1..5 thorough (u_user_path: 3 / 4), all Unicode',
            'intermediate_directories': common_dirs(), 'exact_length_per_obligation': True}


def common_dirs():
    return ['x.int/', 'sub/x.int/', 'a/b/x.int/']


def obligations(tier, kf):
    nmax = 4 if tier == 'quick' else 5
    obs = []
    for d in range(3):
        for fn in POSITIONS:
            if fn == 'o_objname' and d:
                continue
            nm = nmax - 1 if fn in ('u_user_path', 'o_objname_dir') else nmax
            for n in range(1, nm + 1):
                p = {'N': n, 'D': d}
                p.update(kf)
                ob = Ob(fn, p, {1: 60, 2: 120, 3: 400, 4: 1200, 5: 3000}[n],
                        desc='%s, |s| == %d, directory %s' % (fn, n, common_dirs()[d]))
                obs.append(ob)
                if n == 2 and d == 1:
                    obs.append(ob.twin())
                if n == (2 if fn == 'w_inverse' else 3) and d == 1:
                    for m in MUTANTS.get(fn, []):
                        obs.append(ob.mutant(m))
    for fn in ('r_dup_make', 'r_dup_ninja'):
        ob = Ob(fn, dict(kf), 900, desc='%s: two rules over 3 names, 1-3 and 1-2 targets, str/Path '
                                        'spellings (exhaustive shapes)' % fn)
        obs += [ob, ob.twin()]
    obs.append(Ob('r_dup_make', dict(kf), 600).mutant('make_rule_registers_last_only'))
    obs.append(Ob('r_dup_ninja', dict(kf), 600).mutant('ninja_build_str_only'))
    return obs


def classify(ob, cex):
    s = cex['args'][0]
    if not isinstance(s, str):
        return None
    if s.startswith('~') or s.startswith('./~'):
        return 'C05-F13'
    return None


def concrete_crosscheck(tier, kf):
    def adm(h, fn, s):
        if fn == 'u_user_path':
            if s.startswith('~'):
                return False
            try:
                from bfg9000.path import Path
                return not Path(s).suffix.startswith('~')
            except ValueError:
                return True
        return h._norm_ok(s) and not (h.KF_TILDE and s[0] == '~') and not h._has_par(s)
    return common.concrete_crosscheck(HARNESS, POSITIONS, "a./~:P", 3, adm, dict(kf, D=1))


def regex_selftest():
    import re
    return [('within_directory', re.compile(r'(^|/)\.\.(?=/|$)'), r'\1PAR', 'a./')]

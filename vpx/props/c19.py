"""C19 -- scripts are isolated and relative: path re-rooting, export stack, argument spellings."""
from vpx.run import Ob

ID = 'C19'
LEVEL_TEXT = ('bounded symbolic execution (CrossHair/z3) of the real relpath/buildpath/relname '
              'builtins on a real StackContext for every relative path string up to the bound (all '
              'Unicode, incl. ../ and backslashes) in submodule directories of depth 0-3; of the '
              'export stack over every history of include/export/return/failing-submodule operations '
              '(depth <= 3); of '
              'the enable/with toggle naming for every option name; and of '
              'add_user_argument + argparse for every value string in the plain and --x- spellings')
LEVEL_NOTE = ('claimed for the path and argument kernels: globals isolation between scripts is a '
              'property of exec(code, fresh dict) (compile() is a C boundary) and is not checked; '
              'repeated sibling inclusion through real files is outside; extra_args surviving '
              'save/load is covered structurally in C09; option *names* are concrete in the argparse '
              'obligation (argparse keys a dict by option string)')
HARNESS = 'vpx.harness.c19'
FUNCTIONS = ['bfg9000.builtins.path.relpath', 'buildpath', 'relname', 'BasePath.ensure',
             'bfg9000.builtins.builtin.StackContext.push_path/path/exports',
             'bfg9000.builtins.core.export', 'bfg9000.arguments.parser.ToggleAction.__init__/_prefix',
             'add_user_argument', 'ArgumentParser._get_option_tuples']
OUTSIDE = ['isolation of script globals', 'real script files and repeated inclusion',
           'paths longer than the bound']
STUBS = ['StackContext without the builtin tables (context["relpath"] bound directly)']
ASSUMPTIONS = []
EXHAUSTIVE = True


def bounds(tier):
    q = tier == 'quick'
    return {'relative_path_length': '0..%d' % (3 if q else 4), 'submodule_dirs': ['', 'sub',
            'sub/inner', 'a/b/c'], 'export_histories': '<= %d operations' % (4 if q else 5),
            'option_name_length': '1..%d (all Unicode)' % (3 if q else 4), 'value_length': '0..%d' % (3 if q else 4)}


def obligations(tier, kf):
    q = tier == 'quick'
    obs = []
    T = {0: 60, 1: 60, 2: 120, 3: 400, 4: 1500}
    for d in range(4):
        for n in range(0, (3 if q else 4) + 1):
            obs.append(Ob('p_relative', {'N': n, 'D': d}, T[n], desc='dir #%d, |r|==%d' % (d, n)))
    obs.append(Ob('p_relative', {'N': 2, 'D': 1}, 120).twin())
    obs.append(Ob('p_relative', {'N': 3, 'D': 2}, 300).mutant('relpath_ignores_submodule'))
    obs.append(Ob('p_relative', {'N': 3, 'D': 2}, 300).mutant('buildpath_not_rerooted'))
    obs.append(Ob('e_exports', {'NO': 4}, 1500, desc='export stack histories of <= 4 operations'))
    if not q:
        for p0 in range(8):
            obs.append(Ob('e_exports', {'NO': 5, 'P0': p0}, 4000,
                          desc='export stack histories of exactly 5 operations, first op #%d' % p0))
    obs.append(Ob('e_exports', {'NO': 3}, 120).twin())
    obs.append(Ob('e_exports', {'NO': 4}, 600).mutant('exports_shared_dict'))
    obs.append(Ob('e_exports', {'NO': 4}, 600).mutant('push_path_no_finally'))
    for n in range(1, (3 if q else 4) + 1):
        obs.append(Ob('t_toggle', {'N': n}, 900, desc='toggle naming, |name|==%d' % n))
    obs.append(Ob('t_toggle', {'N': 2}, 120).twin())
    obs.append(Ob('t_toggle', {'N': 2}, 300).mutant('toggle_prefix_unanchored'))
    for n in range(0, (3 if q else 4) + 1):
        obs.append(Ob('u_user_argument', {'N': n}, 600, desc='user argument, |value|==%d' % n))
    obs.append(Ob('u_user_argument', {'N': 1}, 120).twin())
    obs.append(Ob('u_user_argument', {'N': 1}, 300).mutant('user_arg_no_x_alias'))
    return obs

"""C08 -- automatic regeneration: the decision kernel (find_check_cache) and cache-key stability."""
from vpx.run import Ob

ID = 'C08'
LEVEL_TEXT = ('bounded symbolic execution (CrossHair/z3) of the real find_check_cache with the file '
              'system replaced by nondeterministic stubs: arbitrary integer timestamps for 2 inputs '
              'and 2 outputs (unbounded), arbitrary cached and fresh find results for 1 (quick) / 2 '
              '(thorough) filters over 2 candidate paths x 4 categories, output existence symbolic: '
              'regeneration is skipped only if no input is newer and every found/extra list is '
              'unchanged and no directory is walked that the trigger list does not know (known finding '
              'C08-F23), skipped outputs are touched, fresh results are kept, nothing of the old cache '
              'reaches a forced regeneration; the saved input list equals the inputs of the regenerate '
              'rule; FileFilter JSON round '
              'trip (equality and hash) over a generated pattern/type/extra/exclude space')
LEVEL_NOTE = ('claimed for the decision kernel only: byte comparison with a fresh configure over edit '
              'histories, the backends\' own mtime logic and bootstrap_paths are whole-program '
              'behaviour; stubs: path.getmtime_ns / exists / touch, _find_files (arbitrary results), '
              'FindCacheFile.load (constructed cache); at equal timestamps either decision is '
              'accepted')
HARNESS = 'vpx.harness.c08'
FUNCTIONS = ['bfg9000.builtins.find.find_check_cache', 'bfg9000.builtins.regenerate.RegenerateFiles.make',
             'regenerate._inputs/_outputs', 'make_regenerate_rule', 'ninja_regenerate_rule', 'FindCache.add', 'FindCache.__getitem__',
             'FileFilter.to_json/from_json/__eq__/__hash__', 'PathGlob.to_json/from_json/__eq__/'
             '__hash__', 'NameGlob.to_json/from_json', 'Glob.Type.to_char/from_char']
OUTSIDE = ['edit histories and comparison with a fresh configure', 'more than 2 filters / 2 '
           'candidate paths', 'the JSON text layer', 'submodule/options/toolchain edits '
           '(bootstrap_paths are built by whole-program execution)', 'interrupted regeneration (C10)']
STUBS = ['bfg9000.path.getmtime_ns -> arbitrary integer per path', 'bfg9000.path.exists/touch -> '
         'symbolic existence / recorder', 'bfg9000.builtins.find._find_files -> arbitrary category per '
         'candidate path', 'FindCacheFile.load -> constructed (RegenerateFiles, cache)']
ASSUMPTIONS = ['a missing file has timestamp 0 (as getmtime_ns(strict=False) returns)']
EXHAUSTIVE = True


def bounds(tier):
    return {'timestamps': 'arbitrary non-negative integers (unbounded)', 'inputs': 2, 'outputs': 2,
            'filters': '1 (all 16 cached-category masks)' if tier == 'quick' else '2 (16 x 4 cached-category masks)', 'candidate_paths': 2,
            'categories': ['include', 'not_now', 'exclude', 'exclude_recursive'],
            'cache_key_space': '6 component patterns, depth <= %d, 4 types, extra/exclude in '
                               '{none, *.c, a/}' % (2 if tier == 'quick' else 3)}


def obligations(tier, kf):
    q = tier == 'quick'
    obs = []
    if q:
        for m in range(16):
            obs.append(Ob('c_check_cache', dict(kf, NF=1, cached=[m]), 600,
                          desc='1 filter, cached categories mask %d' % m))
    else:
        for m in range(16):
            for m2 in (0, 6, 9, 15):     # second filter: nothing / two complementary pairs / all
                obs.append(Ob('c_check_cache', dict(kf, NF=2, cached=[m, m2]), 1500,
                              desc='2 filters, cached masks %d,%d' % (m, m2)))
    obs.append(Ob('c_check_cache', dict(kf, NF=1, cached=[4]), 120).twin())
    obs.append(Ob('c_check_cache', dict(kf, NF=1, cached=[4]), 300).mutant('regen_ignores_extra'))
    obs.append(Ob('c_check_cache', dict(kf, NF=1, cached=[0]), 300).mutant('regen_min_of_inputs'))
    obs.append(Ob('c_check_cache', dict(kf, NF=1, cached=[0]), 300).mutant('check_cache_replays_when_inputs_newer'))
    obs.append(Ob('c_check_cache', dict(kf, NF=1, cached=[0]), 300).mutant('regen_no_touch_missing_check'))
    ia = Ob('i_inputs_agree', {}, 600, desc='saved input list == inputs of the regenerate rule '
                                              '(make and ninja, toolchain/mopack present or not)')
    obs += [ia, ia.twin(), ia.mutant('regen_saved_inputs_bootstrap_only')]
    obs.append(Ob('c_check_cache', dict(kf, NF=1, cached=[1]), 300).mutant('regen_replay_drops_find_dirs'))
    for i1 in range(6):
        obs.append(Ob('k_cache_key', {'I1': i1, 'I3': not q}, 3000, desc='cache key, first '
                                                                          'component #%d' % i1))
    obs.append(Ob('k_cache_key', {'I1': 1}, 120).twin())
    obs.append(Ob('k_cache_key', {'I1': 1}, 300).mutant('glob_json_drops_type'))
    return obs


def classify(ob, cex):
    a = cex['args']
    if ob.fn == 'c_check_cache' and (len(a) > 5 and a[5] or cex.get('kwargs', {}).get('newdir')):
        return 'C08-F23'
    return None


def real_replay(ob, cex):
    """new-directory counterexamples: the history mkdir / make / add file / make with the real
    driver and the real make (findings/C08-F23-demo.py)"""
    a = cex['args']
    if not (ob.fn == 'c_check_cache' and (len(a) > 5 and a[5] or cex.get('kwargs', {}).get('newdir'))):
        return None
    import os
    import subprocess
    demo = os.path.join(os.path.dirname(os.path.dirname(os.path.dirname(os.path.abspath(__file__)))),
                        'findings', 'C08-F23-demo.py')
    r = subprocess.run(['/venv/bin/python', demo], capture_output=True, timeout=600)
    out = r.stdout.decode(errors='replace')
    return {'reproduced': r.returncode == 1 and 'VIOLATION' in out, 'detail': out[-1500:]}
